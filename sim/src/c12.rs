//! C12 — each (rules file, data file) pair stands alone: no leak between pairs, whatever
//! the order in which files are given or walked, and the run fails iff some pair fails.
//! The same for the test cases of one `cfn-guard test` file.
//!
//! Schedule space: the order in which pairs reach the evaluator — argument permutations,
//! directory walks under -a / -m / neither with simulated readdir order and mtimes
//! (distinct, tied, all equal, stepped backwards), payload list order, test-case order and
//! distribution over files — all inside one process, against singleton reference runs in
//! pristine processes.

use crate::c05::{files_from_json, files_to_json};
use crate::doc::{self, DocFmt, J};
use crate::exec::{FileSpec, Work};
use crate::framework::*;
use crate::prng::{derive, Rng};
use crate::proto::*;
use crate::rules::{self, Body, Clause, Cmp, GenOpts, Line, Op, Part, Prog, Query, Rule};
use crate::workload::*;
use serde_json::{json, Value};
use std::collections::BTreeMap;

pub struct C12;

#[derive(Clone, Debug)]
pub struct Delivery {
    pub kind: String,
    /// for structured deliveries: "json" | "yaml" | "junit"
    pub fmt: String,
    pub argv: Vec<String>,
    pub stdin: Option<String>,
    pub dir_mode: String,
    pub dir_seed: u64,
    /// files that exist only for this delivery (payload, permuted / split test files)
    pub extra: Vec<FileSpec>,
    /// mtime overrides (ns) by relative path
    pub mtimes: BTreeMap<String, i64>,
}

impl Delivery {
    fn to_json(&self) -> Value {
        json!({"kind": self.kind, "fmt": self.fmt, "argv": self.argv, "stdin": self.stdin, "dir_mode": self.dir_mode, "dir_seed": self.dir_seed,
               "extra": files_to_json(&self.extra), "mtimes": self.mtimes})
    }
    fn from_json(v: &Value) -> Option<Delivery> {
        Some(Delivery {
            kind: v.get("kind")?.as_str()?.to_string(),
            fmt: v.get("fmt").and_then(|s| s.as_str()).unwrap_or("json").to_string(),
            argv: v.get("argv")?.as_array()?.iter().filter_map(|s| s.as_str().map(String::from)).collect(),
            stdin: v.get("stdin").and_then(|s| s.as_str()).map(String::from),
            dir_mode: v.get("dir_mode")?.as_str()?.to_string(),
            dir_seed: v.get("dir_seed")?.as_u64()?,
            extra: files_from_json(v.get("extra")?),
            mtimes: serde_json::from_value(v.get("mtimes")?.clone()).ok()?,
        })
    }
}

pub fn parse_json_stream(b: &[u8]) -> Option<Vec<Value>> {
    let mut out = Vec::new();
    let de = serde_json::Deserializer::from_slice(b).into_iter::<Value>();
    for v in de {
        match v {
            Ok(v) => out.push(v),
            Err(_) => return None,
        }
    }
    Some(out)
}

/// A pair's report with the data-file name removed (payload and stdin deliveries rename it).
fn canon(v: &Value) -> Value {
    let mut v = v.clone();
    if let Some(o) = v.as_object_mut() {
        o.remove("name");
    }
    blank_rule_file_names(&mut v);
    v
}

/// Messages quote the rules file's name (`Location[file:r1.guard, line:..` vs
/// `file:RULES_STDIN[2]` for a payload): blank it, it is not part of a pair's verdict.
fn blank_rule_file_names(v: &mut Value) {
    match v {
        Value::String(s) => {
            if s.contains("file:") {
                let mut out = String::with_capacity(s.len());
                let mut rest = s.as_str();
                while let Some(p) = rest.find("file:") {
                    out.push_str(&rest[..p + 5]);
                    rest = &rest[p + 5..];
                    match rest.find(", line:") {
                        Some(q) => {
                            out.push('@');
                            rest = &rest[q..];
                        }
                        None => break,
                    }
                }
                out.push_str(rest);
                *s = out;
            }
        }
        Value::Array(a) => a.iter_mut().for_each(blank_rule_file_names),
        Value::Object(o) => o.values_mut().for_each(blank_rule_file_names),
        _ => {}
    }
}

fn names_in(v: &Value, key: &str) -> Vec<String> {
    v.get(key).and_then(|a| a.as_array()).map(|a| a.iter().filter_map(|s| s.as_str().map(String::from)).collect()).unwrap_or_default()
}

fn nc_rule_names(v: &Value) -> Vec<String> {
    v.get("not_compliant")
        .and_then(|a| a.as_array())
        .map(|a| a.iter().filter_map(|e| e.get("Rule").and_then(|r| r.get("name")).and_then(|n| n.as_str()).map(String::from)).collect())
        .unwrap_or_default()
}

fn all_rule_names(v: &Value) -> Vec<String> {
    let mut n = names_in(v, "compliant");
    n.extend(names_in(v, "not_applicable"));
    n.extend(nc_rule_names(v));
    n
}

fn status_and(a: &str, b: &str) -> &'static str {
    match (a, b) {
        ("FAIL", _) | (_, "FAIL") => "FAIL",
        ("PASS", _) | (_, "PASS") => "PASS",
        _ => "SKIP",
    }
}

/// Union of singleton reports (what --structured prints for one data file).
fn union(reports: &[&Value]) -> Value {
    let mut status = "SKIP";
    let mut compliant: Vec<String> = Vec::new();
    let mut na: Vec<String> = Vec::new();
    let mut nc: Vec<String> = Vec::new();
    for r in reports {
        status = status_and(status, r.get("status").and_then(|s| s.as_str()).unwrap_or("SKIP"));
        compliant.extend(names_in(r, "compliant"));
        na.extend(names_in(r, "not_applicable"));
        if let Some(a) = r.get("not_compliant").and_then(|a| a.as_array()) {
            nc.extend(a.iter().map(|e| {
                let mut e = e.clone();
                blank_rule_file_names(&mut e);
                e.to_string()
            }));
        }
    }
    compliant.sort();
    compliant.dedup();
    na.sort();
    na.dedup();
    nc.sort();
    json!({"status": status, "compliant": compliant, "not_applicable": na, "not_compliant": nc})
}

fn as_union_shape(r: &Value) -> Value {
    union(&[r])
}

fn marker_rule(tag: &str) -> Rule {
    Rule {
        name: format!("mk_{tag}"),
        when: vec![],
        body: Body { lets: vec![], lines: vec![Line { alts: vec![Clause::Cmp(Cmp { not: false, q: Query { some: false, parts: vec![Part::Key("zz_marker_key".into())] }, op: Op::Exists, opnot: true, rhs: None, msg: None })] }] },
    }
}

#[derive(Clone, Debug)]
pub struct Scn12 {
    pub files: Vec<FileSpec>,
    /// (relative path of rules file, marker rule name)
    pub rules: Vec<(String, String)>,
    pub data: Vec<String>,
    pub test_cases: Vec<TestCase>,
}

impl Scn12 {
    fn to_json(&self, d: &Delivery) -> Value {
        json!({"files": files_to_json(&self.files), "rules": self.rules, "data": self.data, "delivery": d.to_json(),
               "test_cases": self.test_cases.iter().map(|t| json!({"name": t.name, "input": doc::render(&t.input, DocFmt::JsonCompact), "expect": t.expect})).collect::<Vec<_>>()})
    }
}

fn tests_text(cases: &[TestCase]) -> Vec<u8> {
    let wl = Workload { docs: vec![], progs: vec![], params: vec![], tests: cases.to_vec(), template: None, overrides: BTreeMap::new(), mtimes: BTreeMap::new(), mtime_base_s: 0, odd_names: false };
    wl.tests_text().into_bytes()
}

struct Refs {
    /// singleton report and exit class per (rules idx, data idx)
    pair: BTreeMap<(usize, usize), (Value, String)>,
    /// rule ids with a SARIF result, per pair (from a second command of the same singleton run)
    sarif: BTreeMap<(usize, usize), std::collections::BTreeSet<String>>,
    any_error: bool,
}

impl C12 {
    fn gen(&self, seed: u64, rep: &mut Report) -> (Workload, Scn12) {
        let mut r = Rng::stream(seed, "workload");
        let mut o = WlOpts::default();
        o.max_docs = 4;
        o.gen = GenOpts { functions: r.chance(1, 4), prules: r.chance(1, 3), default_clauses: false, ..Default::default() };
        let mut wl = gen_workload(&mut r, &o);
        // the files deliberately share rule, variable and capture names; a uniquely named
        // marker rule per file makes plain-mode output attributable
        for (i, p) in wl.progs.iter_mut().enumerate() {
            let tag = ["a", "b", "c", "d"][i % 4];
            let at = r.usize(p.rules.len() + 1);
            p.rules.insert(at, marker_rule(tag));
        }
        // many distinct regular expressions (more than any fixed-size cache of compiled
        // patterns would hold), half of which match: a pattern answered by another one's
        // compiled form flips a single-clause rule
        if r.chance(1, 6) {
            for (i, (d, _)) in wl.docs.iter_mut().enumerate() {
                if let J::Map(kv) = d {
                    kv.push(("rx_subject".into(), J::Str(format!("subject{}", i))));
                }
            }
            let per_file = *r.pick(&[12usize, 24, 48, 90]);
            for (t, p) in wl.progs.iter_mut().enumerate() {
                for i in 0..per_file {
                    let re = if (i + t) % 2 == 0 { format!("^subject[0-9]+(x{}y{})?$", t, i) } else { format!("^nomatch_{}_{}$", t, i) };
                    p.rules.push(crate::rules::Rule {
                        name: format!("rx_{}_{}", t, i),
                        when: vec![],
                        body: crate::rules::Body { lets: vec![], lines: vec![crate::rules::Line { alts: vec![crate::rules::Clause::Cmp(crate::rules::Cmp { not: false, q: crate::rules::Query { some: false, parts: vec![crate::rules::Part::Key("rx_subject".into())] }, op: crate::rules::Op::Eq, opnot: false, rhs: Some(crate::rules::Rhs::Regex(re)), msg: None })] }] },
                    });
                }
            }
            rep.count("gen.many_distinct_regexes", 1);
        }
        // a rules file that is evaluated on one document and SKIPs as a whole on another (all its
        // rules are guarded by a key the second document lacks): FAIL then SKIP must stay FAIL
        if wl.docs.len() > 1 && r.chance(1, 5) {
            let key = match &wl.docs[0].0 {
                J::Map(kv) if !kv.is_empty() => Some(kv[r.usize(kv.len())].0.clone()),
                _ => None,
            };
            if let Some(gk) = key {
                if crate::rules::is_ident_pub(&gk) {
                    let victim = 1 + r.usize(wl.docs.len() - 1);
                    if let J::Map(kv) = &mut wl.docs[victim].0 {
                        kv.retain(|(k, _)| *k != gk);
                    }
                    let t = r.usize(wl.progs.len());
                    for rule in wl.progs[t].rules.iter_mut() {
                        rule.when.insert(0, crate::rules::Line { alts: vec![crate::rules::Clause::Cmp(crate::rules::Cmp { not: false, q: crate::rules::Query { some: false, parts: vec![crate::rules::Part::Key(gk.clone())] }, op: crate::rules::Op::Exists, opnot: false, rhs: None, msg: None })] });
                    }
                    wl.progs[t].default_lines.clear();
                    rep.count("gen.rules_file_skips_on_one_document", 1);
                }
            }
        }
        // two data files with byte-identical content (a copied template): still two pairs
        if wl.docs.len() > 1 && r.chance(1, 5) {
            wl.docs[1] = wl.docs[0].clone();
            rep.count("gen.identical_data_files", 1);
        }
        // data files: flat or nested; rules files: flat, nested, or the same base name in
        // different directories (team-a/checks.guard, team-b/checks.guard)
        let nested = r.chance(1, 3);
        let same_base = r.chance(1, 4);
        let same_base_data = wl.docs.len() > 1 && r.chance(1, 5);
        if same_base_data {
            rep.count("gen.same_base_name_data", 1);
        }
        let mut files = Vec::new();
        let mut data = Vec::new();
        for (i, (d, f)) in wl.docs.iter().enumerate() {
            let rel = if same_base_data { format!("data/env-{}/template.{}", i, f.ext()) } else if nested && i % 2 == 1 { format!("data/sub/d{}.{}", i, f.ext()) } else { doc_rel(i, *f) };
            files.push(FileSpec { rel: rel.clone(), bytes: doc::render(d, *f).into_bytes(), mtime_ns: 0 });
            data.push(rel);
        }
        let mut rls = Vec::new();
        for (i, p) in wl.progs.iter().enumerate() {
            let tag = ["a", "b", "c", "d"][i % 4];
            let rel = if same_base { format!("rules/team-{}/checks.guard", tag) } else if nested && i == 1 { format!("rules/sub/r{}.guard", i) } else { rules_rel(i) };
            files.push(FileSpec { rel: rel.clone(), bytes: p.print().into_bytes(), mtime_ns: 0 });
            rls.push((rel, format!("mk_{tag}")));
        }
        for (i, f) in files.iter_mut().enumerate() {
            f.mtime_ns = (1_700_000_000 + 13 * i as i64) * 1_000_000_000;
        }
        // test cases (for progs[0]) with unique names
        let mut cases = wl.tests.clone();
        for (i, c) in cases.iter_mut().enumerate() {
            c.name = Some(format!("case {}", i + 1));
        }
        if nested {
            rep.count("gen.nested_dirs", 1);
        }
        if same_base && wl.progs.len() > 1 {
            rep.count("gen.same_base_name_rules", 1);
        }
        (wl.clone(), Scn12 { files, rules: rls, data, test_cases: cases })
    }

    fn deliveries(&self, r: &mut Rng, scn: &Scn12, wl: &Workload, k: usize) -> Vec<Delivery> {
        let mut out = Vec::new();
        let nr = scn.rules.len();
        let nd = scn.data.len();
        for _ in 0..k {
            let structured = r.chance(1, 2);
            let choice = r.below(10);
            // (SARIF names data files by path: not for payload deliveries)
            let fmt: &str = if structured { if (7..9).contains(&choice) { *r.pick(&["json", "json", "yaml", "junit"]) } else { *r.pick(&["json", "json", "yaml", "junit", "sarif"]) } } else { "json" };
            let tail: Vec<String> = if structured { vec!["--structured".into(), "-o".into(), fmt.into(), "-S".into(), "none".into()] } else { vec!["-o".into(), "json".into(), "-S".into(), "none".into()] };
            if choice < 3 {
                // explicit arguments in a permutation
                let pr = r.perm(nr);
                let pd = r.perm(nd);
                let mut argv = vec!["cfn-guard".to_string(), "validate".into()];
                // -r and -d may be given once with several values or repeatedly
                if r.chance(1, 2) {
                    argv.push("-r".into());
                    for i in &pr {
                        argv.push(format!("@/{}", scn.rules[*i].0));
                    }
                    argv.push("-d".into());
                    for i in &pd {
                        argv.push(format!("@/{}", scn.data[*i]));
                    }
                } else {
                    for i in &pr {
                        argv.push("-r".into());
                        argv.push(format!("@/{}", scn.rules[*i].0));
                    }
                    for i in &pd {
                        argv.push("-d".into());
                        argv.push(format!("@/{}", scn.data[*i]));
                    }
                }
                argv.extend(tail);
                out.push(Delivery { kind: format!("args-{}", if structured { "structured" } else { "plain" }), fmt: fmt.into(), argv, stdin: None, dir_mode: "asc".into(), dir_seed: 1, extra: vec![], mtimes: BTreeMap::new() });
            } else if choice < 7 {
                // directory walks
                let flag = *r.pick(&["", "-a", "-m", "-m"]);
                let mut argv = vec!["cfn-guard".to_string(), "validate".into(), "-r".into(), "@/rules".into(), "-d".into(), "@/data".into()];
                if !flag.is_empty() {
                    argv.push(flag.into());
                }
                argv.extend(tail);
                // mtimes chosen by the simulator's clock: distinct, tied, all equal, or stepped backwards
                let mut mt = BTreeMap::new();
                let pat = r.below(4);
                let base = 1_600_000_000i64 + r.range(0, 1_000_000);
                for (i, f) in scn.files.iter().enumerate() {
                    let t = match pat {
                        0 => base + r.range(0, 100_000),
                        1 => base + (i as i64 / 2) * 60, // pairwise ties
                        2 => base,                       // all equal
                        _ => base - (i as i64) * 3600,   // clock stepped backwards between creations
                    };
                    mt.insert(f.rel.clone(), t * 1_000_000_000 + if pat == 0 { r.range(0, 999_999_999) } else { 0 });
                }
                // plain mode reports an unreadable rules file and carries on with the others: one
                // more rules file (invalid UTF-8, sorting first by name) must leave every other
                // pair's report untouched; the run as a whole is not a success
                let mut extra = vec![];
                let mut kind = format!("dirs{}-{}", flag, if structured { "structured" } else { "plain" });
                if !structured && r.chance(1, 5) {
                    extra.push(FileSpec { rel: "rules/a0_unreadable.guard".into(), bytes: b"# caf\xe9 (latin-1)\nrule zz_unreadable {\n  zz_no_such_key !exists\n}\n".to_vec(), mtime_ns: 0 });
                    kind.push_str("+unreadable");
                }
                out.push(Delivery {
                    kind,
                    fmt: fmt.into(),
                    argv,
                    stdin: None,
                    dir_mode: (*r.pick(&["shuffle", "shuffle", "desc", "asc"])).to_string(),
                    dir_seed: r.next(),
                    extra,
                    mtimes: mt,
                });
            } else if choice < 9 {
                // payload lists in permuted order
                let pr = r.perm(nr);
                let pd = r.perm(nd);
                let rules: Vec<String> = pr.iter().map(|i| wl.progs[*i].print()).collect();
                let data: Vec<String> = pd.iter().map(|i| doc::render(&wl.docs[*i].0, wl.docs[*i].1)).collect();
                let payload = serde_json::to_vec(&json!({"rules": rules, "data": data})).unwrap();
                let mut argv = vec!["cfn-guard".to_string(), "validate".into(), "--payload".into()];
                argv.extend(tail);
                out.push(Delivery {
                    kind: format!("payload-{}", if structured { "structured" } else { "plain" }),
                    fmt: fmt.into(),
                    argv,
                    stdin: Some("@/dlv/payload.json".into()),
                    dir_mode: "asc".into(),
                    dir_seed: 1,
                    extra: vec![FileSpec { rel: "dlv/payload.json".into(), bytes: payload, mtime_ns: 0 }],
                    mtimes: BTreeMap::new(),
                });
            } else {
                // test cases permuted inside one file, or split over several files
                let pc = r.perm(scn.test_cases.len());
                let cases: Vec<TestCase> = pc.iter().map(|i| scn.test_cases[*i].clone()).collect();
                let split = cases.len() > 1 && r.chance(1, 2);
                let mut extra = Vec::new();
                let target;
                if split {
                    let cut = 1 + r.usize(cases.len() - 1);
                    extra.push(FileSpec { rel: "dlv/tests/a_tests.json".into(), bytes: tests_text(&cases[..cut]), mtime_ns: 0 });
                    extra.push(FileSpec { rel: "dlv/tests/b_tests.json".into(), bytes: tests_text(&cases[cut..]), mtime_ns: 0 });
                    target = "@/dlv/tests".to_string();
                } else {
                    extra.push(FileSpec { rel: "dlv/tests/a_tests.json".into(), bytes: tests_text(&cases), mtime_ns: 0 });
                    target = "@/dlv/tests/a_tests.json".to_string();
                }
                let plain = r.chance(1, 3);
                let mut argv = vec!["cfn-guard".to_string(), "test".into(), "-r".into(), format!("@/{}", scn.rules[0].0), "-t".into(), target];
                if !plain {
                    argv.extend(["-o".to_string(), "json".into()]);
                }
                argv.push("-a".into());
                out.push(Delivery { kind: format!("test-{}", if split { "split" } else { "perm" }), fmt: if plain { "plain".into() } else { "json".into() }, argv, stdin: None, dir_mode: (*r.pick(&["shuffle", "asc"])).to_string(), dir_seed: r.next(), extra, mtimes: BTreeMap::new() });
            }
        }
        out
    }

    fn step(argv: &[String], stdin: &Option<String>, root: &str) -> Step {
        let sub = |s: &String| -> String {
            if let Some(rest) = s.strip_prefix("@/") {
                format!("{}{}", root, rest)
            } else {
                s.clone()
            }
        };
        Step { kind: "cli".into(), argv: argv.iter().map(sub).collect(), stdin: stdin.as_ref().map(sub), out_path: None, rc: None, label: String::new() }
    }

    fn outcome(s: &StepOut) -> String {
        crate::c05::outcome_class(s)
    }

    /// Singleton references: every pair alone in a pristine process.
    fn references(&self, w: &mut Work, scn: &Scn12, rep: &mut Report) -> Refs {
        let mut pair = BTreeMap::new();
        let mut sarif = BTreeMap::new();
        let mut any_error = false;
        for (ri, (rrel, _)) in scn.rules.iter().enumerate() {
            for (di, drel) in scn.data.iter().enumerate() {
                let mut req = w.req();
                let argv: Vec<String> = ["cfn-guard", "validate", "-r", &format!("@/{rrel}"), "-d", &format!("@/{drel}"), "--structured", "-o", "json", "-S", "none"].iter().map(|s| s.to_string()).collect();
                let mut argv2 = argv.clone();
                if let Some(p) = argv2.iter().position(|a| a == "json") {
                    argv2[p] = "sarif".into();
                }
                req.steps = vec![Self::step(&argv, &None, &w.root), Self::step(&argv2, &None, &w.root)];
                let o = w.run(&req);
                rep.absorb_exec(&o);
                let mut ids = std::collections::BTreeSet::new();
                if let Some(s2) = o.steps.get(1) {
                    if let Some(results) = serde_json::from_slice::<Value>(&s2.stdout).ok().as_ref().and_then(|v| v.get("runs")).and_then(|r| r.get(0)).and_then(|r| r.get("results")).and_then(|r| r.as_array()) {
                        for res in results {
                            ids.insert(res.get("ruleId").and_then(|x| x.as_str()).unwrap_or("").to_uppercase());
                        }
                    }
                }
                sarif.insert((ri, di), ids);
                let (v, class) = match o.steps.first() {
                    Some(s) => {
                        let class = if o.died_in == Some(0) { format!("died:{}", o.end) } else { Self::outcome(s) };
                        let v = serde_json::from_slice::<Value>(&s.stdout).ok().and_then(|v| v.as_array().and_then(|a| a.first().cloned())).unwrap_or(Value::Null);
                        (v, class)
                    }
                    None => (Value::Null, format!("died:{}", o.end)),
                };
                if !(class == "exit:0" || class == "exit:19") {
                    any_error = true;
                }
                pair.insert((ri, di), (v, class));
            }
        }
        Refs { pair, sarif, any_error }
    }

    fn test_references(&self, w: &mut Work, scn: &Scn12, rep: &mut Report) -> (BTreeMap<String, Value>, bool) {
        let mut out = BTreeMap::new();
        let mut any_error = false;
        for c in &scn.test_cases {
            w.write_file(&FileSpec { rel: "dlv/one/one_tests.json".into(), bytes: tests_text(std::slice::from_ref(c)), mtime_ns: 0 });
            let mut req = w.req();
            let argv: Vec<String> = ["cfn-guard", "test", "-r", &format!("@/{}", scn.rules[0].0), "-t", "@/dlv/one/one_tests.json", "-o", "json"].iter().map(|s| s.to_string()).collect();
            // the same case once more in the console format (its block of text, header line aside)
            let argv_plain: Vec<String> = argv[..argv.len() - 2].to_vec();
            req.steps = vec![Self::step(&argv, &None, &w.root), Self::step(&argv_plain, &None, &w.root)];
            let o = w.run(&req);
            rep.absorb_exec(&o);
            let plain_block: String = o.steps.get(1).map(|s| String::from_utf8_lossy(&crate::c05::strip_ansi(&s.stdout)).into_owned()).map(|t| t.lines().skip_while(|l| !l.starts_with("Test Case #")).skip(1).collect::<Vec<_>>().join("\n").trim_end().to_string()).unwrap_or_default();
            match o.steps.first() {
                Some(s) if o.died_in.is_none() => {
                    let class = Self::outcome(s);
                    if !(class == "exit:0" || class == "exit:7") {
                        any_error = true;
                    }
                    let v = serde_json::from_slice::<Value>(&s.stdout).ok().and_then(|v| v.get("test_cases").and_then(|a| a.as_array()).and_then(|a| a.first().cloned())).unwrap_or(Value::Null);
                    let mut rec = serde_json::Map::new();
                    rec.insert("case".into(), v);
                    rec.insert("class".into(), json!(class));
                    rec.insert("plain".into(), json!(plain_block));
                    out.insert(c.name.clone().unwrap_or_default(), Value::Object(rec));
                }
                _ => {
                    any_error = true;
                }
            }
        }
        w.remove_file("dlv/one/one_tests.json");
        (out, any_error)
    }

    fn apply_delivery(&self, w: &mut Work, scn: &Scn12, d: &Delivery) {
        let mut files = scn.files.clone();
        for f in files.iter_mut() {
            if let Some(m) = d.mtimes.get(&f.rel) {
                f.mtime_ns = *m;
            }
        }
        files.extend(d.extra.iter().cloned());
        w.materialise(&files);
    }

    fn run_delivery(&self, w: &mut Work, d: &Delivery) -> ExecOut {
        let mut req = w.req();
        req.sim.dir_mode = d.dir_mode.clone();
        req.sim.dir_seed = d.dir_seed;
        req.steps = vec![Self::step(&d.argv, &d.stdin, &w.root)];
        w.run(&req)
    }

    /// Compare one delivery with the references. Returns (signature tail, description).
    fn judge(&self, scn: &Scn12, d: &Delivery, o: &ExecOut, refs: &Refs, trefs: &(BTreeMap<String, Value>, bool), rep: &mut Report) -> Vec<(String, String)> {
        let mut out = Vec::new();
        let s = match o.steps.first() {
            Some(s) if o.died_in.is_none() => s,
            _ => {
                // a crash is C08's business; here only note that nothing can be compared
                rep.count("skipped.delivery_died", 1);
                return out;
            }
        };
        let class = Self::outcome(s);
        if d.kind.starts_with("test-") {
            if trefs.1 {
                rep.count("skipped.test_singleton_error", 1);
                return out;
            }
            let any_mismatch = trefs.0.values().any(|v| v.get("class").and_then(|c| c.as_str()) == Some("exit:7"));
            let want = if any_mismatch { "exit:7" } else { "exit:0" };
            if class != want {
                out.push(("exit".into(), format!("test run over all cases returned {class}, the one-case runs imply {want}")));
            }
            if d.fmt == "plain" {
                // console format: one block per test case, the same text as the case alone
                let text = String::from_utf8_lossy(&crate::c05::strip_ansi(&s.stdout)).into_owned();
                let mut blocks: Vec<String> = Vec::new();
                for l in text.lines() {
                    if l.starts_with("Test Case #") {
                        blocks.push(String::new());
                    } else if let Some(b) = blocks.last_mut() {
                        b.push_str(l);
                        b.push('\n');
                    }
                }
                let mut seen = 0;
                for b in &blocks {
                    let b = b.trim_end();
                    let name = b.lines().next().and_then(|l| l.strip_prefix("Name: ")).unwrap_or("");
                    if let Some(r) = trefs.0.get(name) {
                        seen += 1;
                        if r.get("plain").and_then(|p| p.as_str()) != Some(b) {
                            out.push(("test-case-console-block".into(), format!("test case `{name}` prints differently inside the batch than alone")));
                        }
                    }
                }
                if seen != trefs.0.len() {
                    out.push(("test-case-missing".into(), format!("{} of {} test cases printed", seen, trefs.0.len())));
                }
                rep.count("judged.test_console", 1);
                return out;
            }
            let got = match serde_json::from_slice::<Value>(&s.stdout) {
                Ok(v) => v,
                Err(_) => {
                    out.push(("unparsable".into(), "test -o json output is not JSON".into()));
                    return out;
                }
            };
            // split delivery prints... a single TestResult for the rules file with all cases
            let cases: Vec<Value> = got.get("test_cases").and_then(|a| a.as_array()).cloned().unwrap_or_default();
            let mut seen = 0;
            for c in &cases {
                let name = c.get("name").and_then(|n| n.as_str()).unwrap_or("");
                if let Some(r) = trefs.0.get(name) {
                    seen += 1;
                    if r.get("case") != Some(c) {
                        out.push(("test-case-report".into(), format!("test case `{name}` reports differently inside the batch than alone")));
                    }
                }
            }
            if seen != trefs.0.len() {
                out.push(("test-case-missing".into(), format!("{} of {} test cases reported", seen, trefs.0.len())));
            }
            rep.count("judged.test", 1);
            return out;
        }
        // validate
        let any_fail = refs.pair.values().any(|(_, c)| c == "exit:19");
        if refs.any_error {
            // some pair errors on its own: the batch must not claim success
            if class == "exit:0" {
                out.push(("exit".into(), "a pair fails with an error on its own but the batch exits 0".into()));
            }
            rep.count("skipped.singleton_error", 1);
            return out;
        }
        let want = if any_fail { "exit:19" } else { "exit:0" };
        if d.kind.contains("+unreadable") {
            // one rules file of this delivery cannot be read: 5 or 19, never 0
            if class != "exit:5" && class != "exit:19" {
                out.push(("exit".into(), format!("batch with an unreadable rules file returned {class}")));
                return out;
            }
            rep.count("judged.with_unreadable_rules_file", 1);
        } else if class != want {
            out.push(("exit".into(), format!("batch returned {class}, the pairs alone imply {want}")));
            return out;
        }
        let structured = d.kind.ends_with("structured");
        let base_names_collide = {
            let mut b: Vec<&str> = scn.rules.iter().map(|(rel, _)| rel.rsplit('/').next().unwrap_or("")).collect();
            b.sort();
            let n = b.len();
            b.dedup();
            b.len() != n
        };
        if structured && d.fmt == "junit" && base_names_collide && !d.kind.starts_with("payload") {
            // JUnit names test cases by the rules file's base name: not attributable here;
            // the exit code has been checked above
            rep.count("skipped.junit_base_names_collide", 1);
        } else if structured && d.fmt == "junit" {
            // <testsuite name=DATA> <testcase name=RULES status=pass|skip> | <testcase ..><failure..>
            let text = String::from_utf8_lossy(&s.stdout).into_owned();
            let payload_order: Option<Vec<usize>> = if d.kind.starts_with("payload") { Some(self.payload_data_order(scn, d)) } else { None };
            let attr = |tag: &str, name: &str| -> Option<String> {
                let p = tag.find(&format!("{name}=\""))?;
                let rest = &tag[p + name.len() + 2..];
                Some(rest[..rest.find('"')?].to_string())
            };
            let mut suite_idx = 0usize;
            let mut cur_data: Option<usize> = None;
            let mut seen = 0usize;
            let mut case_in_suite = 0usize;
            // the counters in the attributes: a suite's `failures` / `errors` are zero exactly
            // when none of ITS test cases failed / erred, and the totals are the sums
            let num = |tag: &str, name: &str| -> Option<u64> { attr(tag, name).and_then(|v| v.parse().ok()) };
            let mut totals: Option<(u64, u64)> = None;
            let mut sum = (0u64, 0u64);
            // (declared failures, declared errors, failing cases seen, erring cases seen, name)
            let mut cur_suite: Option<(u64, u64, u64, u64, String)> = None;
            let mut close_suite = |cs: &mut Option<(u64, u64, u64, u64, String)>, out: &mut Vec<(String, String)>| {
                if let Some((f, e, sf, se, name)) = cs.take() {
                    if (f == 0) != (sf == 0) || (e == 0) != (se == 0) {
                        out.push(("junit-suite-counters".into(), format!("JUnit suite {} declares failures={} errors={} but {} of its test cases failed and {} erred", name.rsplit('/').next().unwrap_or(""), f, e, sf, se)));
                    }
                }
            };
            let mut rest = text.as_str();
            while let Some(p) = rest.find('<') {
                rest = &rest[p..];
                let end = rest.find('>').unwrap_or(rest.len() - 1);
                let tag = &rest[..=end];
                if tag.starts_with("<testsuites ") {
                    totals = Some((num(tag, "failures").unwrap_or(0), num(tag, "errors").unwrap_or(0)));
                } else if tag.starts_with("<testsuite ") {
                    close_suite(&mut cur_suite, &mut out);
                    let (f, e) = (num(tag, "failures").unwrap_or(0), num(tag, "errors").unwrap_or(0));
                    sum.0 += f;
                    sum.1 += e;
                    cur_suite = Some((f, e, 0, 0, attr(tag, "name").unwrap_or_default()));
                }
                if tag.starts_with("<testsuite ") {
                    let name = attr(tag, "name").unwrap_or_default();
                    cur_data = match &payload_order {
                        Some(ord) => ord.get(suite_idx).copied(),
                        None => scn.data.iter().position(|rel| name.ends_with(rel.as_str())),
                    };
                    suite_idx += 1;
                    case_in_suite = 0;
                } else if tag.starts_with("<testcase ") {
                    let name = attr(tag, "name").unwrap_or_default();
                    let status = match attr(tag, "status").as_deref() {
                        Some("pass") => "PASS",
                        Some("skip") => "SKIP",
                        Some("error") => "ERROR",
                        _ => "FAIL",
                    };
                    if let Some(cs) = cur_suite.as_mut() {
                        match status {
                            "FAIL" => cs.2 += 1,
                            "ERROR" => cs.3 += 1,
                            _ => {}
                        }
                    }
                    let ri = if d.kind.starts_with("payload") {
                        // RULES_STDIN[k] is the k-th rules text of the payload
                        self.payload_rules_order(scn, d).get(case_in_suite).copied()
                    } else {
                        scn.rules.iter().position(|(rel, _)| rel.rsplit('/').next() == Some(name.as_str()))
                    };
                    case_in_suite += 1;
                    if let (Some(ri), Some(di)) = (ri, cur_data) {
                        seen += 1;
                        let want = refs.pair[&(ri, di)].0.get("status").and_then(|x| x.as_str()).unwrap_or("");
                        if want != status {
                            out.push(("junit-pair-status".into(), format!("JUnit marks ({}, {}) as {} but that pair alone is {}", scn.rules[ri].0, scn.data[di], status, want)));
                        }
                    } else {
                        out.push(("attribution".into(), "a JUnit test case names no known rules / data file".into()));
                    }
                }
                rest = &rest[end + 1..];
            }
            close_suite(&mut cur_suite, &mut out);
            if let Some((tf, te)) = totals {
                if tf != sum.0 || te != sum.1 {
                    out.push(("junit-total-counters".into(), format!("JUnit totals failures={} errors={} are not the sums of the suites' ({} / {})", tf, te, sum.0, sum.1)));
                }
            }
            if seen != scn.rules.len() * scn.data.len() {
                out.push(("report-count".into(), format!("{} JUnit test cases for {} pairs", seen, scn.rules.len() * scn.data.len())));
            }
            rep.count("judged.junit", 1);
        } else if structured && d.fmt == "sarif" {
            // results[] = one entry per failing rule and data file: the set of (data file, rule)
            // must be the union of the pairs' own failing rules
            let v: Option<Value> = serde_json::from_slice::<Value>(&s.stdout).ok();
            let results = v.as_ref().and_then(|v| v.get("runs")).and_then(|r| r.get(0)).and_then(|r| r.get("results")).and_then(|r| r.as_array()).cloned();
            match results {
                None => out.push(("unparsable".into(), "SARIF output has no runs[0].results".into())),
                Some(results) => {
                    let mut got: std::collections::BTreeSet<(usize, String)> = Default::default();
                    for res in &results {
                        let uri = res.get("locations").and_then(|l| l.get(0)).and_then(|l| l.get("physicalLocation")).and_then(|l| l.get("artifactLocation")).and_then(|l| l.get("uri")).and_then(|u| u.as_str()).unwrap_or("");
                        let rid = res.get("ruleId").and_then(|x| x.as_str()).unwrap_or("").to_uppercase();
                        match scn.data.iter().position(|rel| uri.ends_with(rel.as_str())) {
                            Some(di) => {
                                got.insert((di, rid));
                            }
                            None => out.push(("attribution".into(), "a SARIF result names no known data file".into())),
                        }
                    }
                    let mut want: std::collections::BTreeSet<(usize, String)> = Default::default();
                    for ((_, di), ids) in &refs.sarif {
                        for id in ids {
                            want.insert((*di, id.clone()));
                        }
                    }
                    if got != want {
                        let missing: Vec<String> = want.difference(&got).take(3).map(|(d, r)| format!("({}, {})", scn.data[*d], r)).collect();
                        let extra: Vec<String> = got.difference(&want).take(3).map(|(d, r)| format!("({}, {})", scn.data[*d], r)).collect();
                        out.push(("sarif-results".into(), format!("SARIF results are not the union of the pairs' own SARIF results: missing {:?}, unexpected {:?}", missing, extra)));
                    }
                }
            }
            rep.count("judged.sarif", 1);
        } else if structured {
            let parsed: Option<Value> = if d.fmt == "yaml" { serde_yaml::from_slice::<Value>(&s.stdout).ok() } else { serde_json::from_slice::<Value>(&s.stdout).ok() };
            let arr = match parsed {
                Some(Value::Array(a)) => a,
                _ => {
                    out.push(("unparsable".into(), "structured output is not an array of reports".into()));
                    return out;
                }
            };
            if arr.len() != scn.data.len() {
                out.push(("report-count".into(), format!("{} reports for {} data files", arr.len(), scn.data.len())));
                return out;
            }
            // attribute reports to data files: by name for file deliveries, by position for payload
            let payload_order: Option<Vec<usize>> = if d.kind.starts_with("payload") { Some(self.payload_data_order(scn, d)) } else { None };
            for (pos, r) in arr.iter().enumerate() {
                let di = match &payload_order {
                    Some(ord) => ord.get(pos).copied(),
                    None => {
                        let name = r.get("name").and_then(|n| n.as_str()).unwrap_or("");
                        scn.data.iter().position(|rel| name.ends_with(rel.as_str()))
                    }
                };
                let di = match di {
                    Some(d) => d,
                    None => {
                        out.push(("attribution".into(), "a report names no known data file".into()));
                        continue;
                    }
                };
                let singles: Vec<&Value> = (0..scn.rules.len()).map(|ri| &refs.pair[&(ri, di)].0).collect();
                if as_union_shape(r) != union(&singles) {
                    out.push(("report-union".into(), format!("the merged report for {} is not the union of the per-rules-file reports", scn.data[di])));
                }
            }
            rep.count("judged.structured", 1);
        } else {
            let docs = match parse_json_stream(&s.stdout) {
                Some(d) => d,
                None => {
                    out.push(("unparsable".into(), "plain -o json output is not a stream of JSON documents".into()));
                    return out;
                }
            };
            if docs.len() != scn.rules.len() * scn.data.len() {
                out.push(("report-count".into(), format!("{} reports for {} pairs", docs.len(), scn.rules.len() * scn.data.len())));
                return out;
            }
            let payload_order: Option<Vec<usize>> = if d.kind.starts_with("payload") { Some(self.payload_data_order(scn, d)) } else { None };
            let mut order_key = String::new();
            let mut per_rules_count: BTreeMap<usize, usize> = BTreeMap::new();
            for r in &docs {
                let names = all_rule_names(r);
                let ri = scn.rules.iter().position(|(_, mk)| names.iter().any(|n| n == mk));
                let ri = match ri {
                    Some(x) => x,
                    None => {
                        out.push(("attribution".into(), "a report contains no marker rule".into()));
                        continue;
                    }
                };
                let di = match &payload_order {
                    Some(ord) => {
                        // plain mode: rules outer, data inner
                        let k = per_rules_count.entry(ri).or_default();
                        let v = ord.get(*k).copied();
                        *k += 1;
                        v
                    }
                    None => {
                        let name = r.get("name").and_then(|n| n.as_str()).unwrap_or("");
                        scn.data.iter().position(|rel| name.ends_with(rel.as_str()))
                    }
                };
                let di = match di {
                    Some(x) => x,
                    None => {
                        out.push(("attribution".into(), "a report names no known data file".into()));
                        continue;
                    }
                };
                order_key.push_str(&format!("{ri}{di} "));
                if canon(r) != canon(&refs.pair[&(ri, di)].0) {
                    out.push(("pair-report".into(), format!("the report for ({}, {}) inside the batch differs from that pair alone", scn.rules[ri].0, scn.data[di])));
                }
            }
            rep.classes.push(format!("order|{}x{}|{}", scn.rules.len(), scn.data.len(), order_key));
            rep.count("judged.plain", 1);
        }
        out
    }

    fn payload_rules_order(&self, scn: &Scn12, d: &Delivery) -> Vec<usize> {
        let mut ord = Vec::new();
        if let Some(p) = d.extra.iter().find(|f| f.rel == "dlv/payload.json") {
            if let Ok(v) = serde_json::from_slice::<Value>(&p.bytes) {
                if let Some(a) = v.get("rules").and_then(|a| a.as_array()) {
                    for t in a {
                        let t = t.as_str().unwrap_or("");
                        let idx = scn.rules.iter().position(|(rel, _)| scn.files.iter().any(|f| &f.rel == rel && f.bytes == t.as_bytes()));
                        ord.push(idx.unwrap_or(usize::MAX));
                    }
                }
            }
        }
        ord
    }

    /// the data order inside a payload delivery (recovered from the payload file itself)
    fn payload_data_order(&self, scn: &Scn12, d: &Delivery) -> Vec<usize> {
        let mut ord = Vec::new();
        if let Some(p) = d.extra.iter().find(|f| f.rel == "dlv/payload.json") {
            if let Ok(v) = serde_json::from_slice::<Value>(&p.bytes) {
                if let Some(a) = v.get("data").and_then(|a| a.as_array()) {
                    for t in a {
                        let t = t.as_str().unwrap_or("");
                        let idx = scn.data.iter().position(|rel| scn.files.iter().any(|f| &f.rel == rel && f.bytes == t.as_bytes()));
                        ord.push(idx.unwrap_or(usize::MAX));
                    }
                }
            }
        }
        ord
    }

    fn check_one(&self, w: &mut Work, scn: &Scn12, d: &Delivery, rep: &mut Report) -> Vec<(String, String)> {
        // references first (on the unperturbed file set), then the delivery
        w.materialise(&scn.files);
        let is_test = d.kind.starts_with("test-");
        let refs = if is_test { Refs { pair: BTreeMap::new(), sarif: BTreeMap::new(), any_error: false } } else { self.references(w, scn, rep) };
        let trefs = if is_test { self.test_references(w, scn, rep) } else { (BTreeMap::new(), false) };
        self.apply_delivery(w, scn, d);
        let o = self.run_delivery(w, d);
        rep.absorb_exec(&o);
        self.judge(scn, d, &o, &refs, &trefs, rep)
    }

    fn minimise(&self, w: &mut Work, wl0: &Workload, scn0: &Scn12, d0: &Delivery, sigtail: &str) -> (Scn12, Delivery, u64) {
        let mut rep = Report::default();
        let budget = 350u64;
        let mut scn = scn0.clone();
        let mut d = d0.clone();
        let mut wl = wl0.clone();
        let has = |me: &C12, w: &mut Work, s: &Scn12, d: &Delivery, rep: &mut Report| -> bool { me.check_one(w, s, d, rep).iter().any(|(t, _)| t == sigtail) };
        // environment: natural directory order, no mtime games
        for cand in [Delivery { dir_mode: "asc".into(), ..d.clone() }, Delivery { mtimes: BTreeMap::new(), ..d.clone() }] {
            if rep.execs < budget && has(self, w, &scn, &cand, &mut rep) {
                d = cand;
            }
        }
        // payload / test deliveries embed the workload text in `extra`; only file deliveries are shrunk structurally
        if !(d.kind.starts_with("payload") || d.kind.starts_with("test-")) {
            let rebuild = |wl: &Workload, scn: &Scn12| -> Scn12 {
                let mut s = scn.clone();
                for (i, (rel, _)) in s.rules.iter().enumerate() {
                    if let Some(f) = s.files.iter_mut().find(|f| &f.rel == rel) {
                        f.bytes = wl.progs[i].print().into_bytes();
                    }
                }
                for (i, rel) in s.data.iter().enumerate() {
                    if let Some(f) = s.files.iter_mut().find(|f| &f.rel == rel) {
                        f.bytes = doc::render(&wl.docs[i].0, wl.docs[i].1).into_bytes();
                    }
                }
                s
            };
            let mut progress = true;
            while progress && rep.execs < budget {
                progress = false;
                let mut cands: Vec<Workload> = Vec::new();
                for (pi, pr) in wl.progs.iter().enumerate() {
                    for s in rules::shrinks(pr).into_iter().take(30) {
                        // keep the marker rule
                        if !s.rules.iter().any(|r| r.name.starts_with("mk_")) {
                            continue;
                        }
                        let mut c = wl.clone();
                        c.progs[pi] = s;
                        cands.push(c);
                    }
                }
                for (di, (dd, _)) in wl.docs.iter().enumerate() {
                    for s in doc::shrinks(dd).into_iter().take(20) {
                        let mut c = wl.clone();
                        c.docs[di].0 = s;
                        cands.push(c);
                    }
                }
                for c in cands {
                    if rep.execs >= budget {
                        break;
                    }
                    let cs = rebuild(&c, &scn);
                    if has(self, w, &cs, &d, &mut rep) {
                        wl = c;
                        scn = cs;
                        progress = true;
                        break;
                    }
                }
            }
        }
        (scn, d, rep.execs)
    }
}

impl Check for C12 {
    fn id(&self) -> &'static str {
        "C12"
    }
    fn level(&self) -> &'static str {
        "exploration"
    }
    fn scenarios(&self, tier: Tier) -> u64 {
        match tier {
            Tier::Quick => 480,
            Tier::Thorough => 8000,
        }
    }
    fn rule_text(&self) -> String {
        "scenario n = 1-3 generated rules files that deliberately share rule, variable and key-capture names (plus one uniquely named marker rule each) x 1-4 documents (mutations of one another, flat or nested directories) + 1-4 test cases; each scenario is delivered k times: explicit -r/-d arguments in seeded permutations, directory walks under -a / -m / neither with simulated readdir permutation and mtimes (distinct, pairwise tied, all equal, stepped backwards), --payload lists in permuted order, test cases permuted or split over files; plain -o json and --structured -o json. Oracle: every pair's report inside the batch equals the report of that pair alone in a pristine process (structured: merged report == union of the singletons), exit != 0 iff some singleton's is, per-test-case results equal the one-case runs. distinct_nontrivial = distinct (pair-count, observed evaluation order) keys plus distinct delivery kinds".into()
    }
    fn assumptions(&self) -> Vec<String> {
        vec![
            "scenarios in which some pair raises an evaluation error on its own are only checked for 'batch does not exit 0' (the error aborts the batch)".into(),
            "which order -a / -m must produce is not part of the statement and is not demanded; the observed order is only used for attribution and as a coverage key".into(),
            "plain-mode reports are attributed to rules files through a uniquely named marker rule per file".into(),
        ]
    }
    fn required_reach(&self, tier: Tier) -> Vec<(&'static str, u64)> {
        let mut v = vec![("judged.plain", 1), ("judged.structured", 1), ("judged.junit", 1), ("judged.test", 1), ("reach.same_rule_different_status", 1)];
        if tier == Tier::Thorough {
            v.push(("reach.shared_capture_name", 1));
        }
        v
    }

    fn run_scenario(&self, w: &mut Work, base_seed: u64, n: u64, tier: Tier) -> Report {
        let mut rep = Report::new(n);
        let seed = derive(base_seed, "C12", n);
        let (wl, scn) = self.gen(seed, &mut rep);
        w.materialise(&scn.files);
        let refs = self.references(w, &scn, &mut rep);
        let trefs = self.test_references(w, &scn, &mut rep);
        // reach probes
        {
            let mut by_name: BTreeMap<String, Vec<String>> = BTreeMap::new();
            for ((_, _), (v, _)) in &refs.pair {
                for n in names_in(v, "compliant") {
                    by_name.entry(n).or_default().push("PASS".into());
                }
                for n in names_in(v, "not_applicable") {
                    by_name.entry(n).or_default().push("SKIP".into());
                }
                for n in nc_rule_names(v) {
                    by_name.entry(n).or_default().push("FAIL".into());
                }
            }
            if by_name.values().any(|s| {
                let mut u = s.clone();
                u.sort();
                u.dedup();
                u.len() > 1
            }) {
                rep.count("reach.same_rule_different_status", 1);
            }
            let caps = wl.progs.iter().filter(|p| p.print().contains("[ cap")).count();
            if caps >= 2 {
                rep.count("reach.shared_capture_name", 1);
            }
            if refs.any_error {
                rep.count("gen.singleton_error", 1);
            }
        }
        let k = match tier {
            Tier::Quick => 8,
            Tier::Thorough => 14,
        };
        let mut r = Rng::stream(seed, "deliveries");
        let ds = self.deliveries(&mut r, &scn, &wl, k);
        let mut done: Vec<String> = Vec::new();
        for d in &ds {
            rep.count(&format!("delivery.{}", d.kind), 1);
            rep.classes.push(format!("delivery|{}", d.kind));
            self.apply_delivery(w, &scn, d);
            let o = self.run_delivery(w, d);
            rep.absorb_exec(&o);
            let found = self.judge(&scn, d, &o, &refs, &trefs, &mut rep);
            for (tail, what) in found {
                let sig = format!("{}/{}", d.kind, tail);
                if done.contains(&sig) {
                    continue;
                }
                done.push(sig.clone());
                // confirm by re-execution, then minimise
                let mut crep = Report::default();
                let again = self.check_one(w, &scn, d, &mut crep);
                rep.execs += crep.execs;
                if !again.iter().any(|(t, _)| *t == tail) {
                    rep.count("harness.unconfirmed_findings", 1);
                    continue;
                }
                if !w.seen.insert(sig.clone()) {
                    rep.violations.push(Violation { signature: sig, what: format!("[{}] {}", d.kind, what), replay: scn.to_json(d), shrink_execs: 0, minimised: false });
                    continue;
                }
                let (mscn, md, execs) = self.minimise(w, &wl, &scn, d, &tail);
                rep.execs += execs;
                rep.violations.push(Violation { signature: sig, what: format!("[{}] {}", d.kind, what), replay: mscn.to_json(&md), shrink_execs: execs, minimised: true });
            }
        }
        if n < 3 {
            rep.sample = Some(json!({
                "rules_files": scn.rules.iter().map(|(r, _)| r.clone()).collect::<Vec<_>>(),
                "data_files": scn.data,
                "deliveries": ds.iter().map(|d| json!({"kind": d.kind, "argv": d.argv.join(" "), "dir_mode": d.dir_mode})).collect::<Vec<_>>(),
                "singleton_outcomes": refs.pair.iter().map(|((ri, di), (_, c))| format!("r{ri}xd{di}:{c}")).collect::<Vec<_>>(),
                "rules_r0": wl.progs[0].print().chars().take(500).collect::<String>(),
            }));
        }
        rep
    }

    fn replay(&self, w: &mut Work, v: &Value) -> Vec<Violation> {
        let files = files_from_json(v.get("files").unwrap_or(&Value::Null));
        let rules: Vec<(String, String)> = serde_json::from_value(v.get("rules").cloned().unwrap_or(Value::Null)).unwrap_or_default();
        let data: Vec<String> = serde_json::from_value(v.get("data").cloned().unwrap_or(Value::Null)).unwrap_or_default();
        let d = match v.get("delivery").and_then(Delivery::from_json) {
            Some(d) => d,
            None => return vec![],
        };
        let mut cases = Vec::new();
        if let Some(a) = v.get("test_cases").and_then(|a| a.as_array()) {
            for c in a {
                let input: Value = serde_json::from_str(c.get("input").and_then(|s| s.as_str()).unwrap_or("null")).unwrap_or(Value::Null);
                cases.push(TestCase { name: c.get("name").and_then(|s| s.as_str()).map(String::from), input: from_value(&input), expect: serde_json::from_value(c.get("expect").cloned().unwrap_or(Value::Null)).unwrap_or_default() });
            }
        }
        let scn = Scn12 { files, rules, data, test_cases: cases };
        let mut rep = Report::default();
        self.check_one(w, &scn, &d, &mut rep).into_iter().map(|(t, what)| Violation { signature: format!("{}/{}", d.kind, t), what, replay: Value::Null, shrink_execs: 0, minimised: false }).collect()
    }
}

pub fn from_value(v: &Value) -> J {
    match v {
        Value::Null => J::Null,
        Value::Bool(b) => J::Bool(*b),
        Value::Number(n) => {
            if let Some(i) = n.as_i64() {
                J::Int(i)
            } else {
                J::Float(n.as_f64().unwrap_or(0.0))
            }
        }
        Value::String(s) => J::Str(s.clone()),
        Value::Array(a) => J::List(a.iter().map(from_value).collect()),
        Value::Object(o) => J::Map(o.iter().map(|(k, v)| (k.clone(), from_value(v))).collect()),
    }
}

#[allow(dead_code)]
fn _unused(_p: &Prog) {}
