//! The one-shot child: performs exactly one simulated execution (a list of steps run back
//! to back in this process, i.e. sharing process history) and exits.
//!
//! Invoked as `guardsim child <req.json>`. Everything the run depends on is in the request.

use crate::proto::*;
use crate::prng::Rng;
use crate::seams::{self, FdClass};
use cfn_guard::commands::CfnGuard;
use cfn_guard::utils::reader::{ReadBuffer, Reader};
use cfn_guard::utils::writer::{WriteBuffer, Writer};
use clap::Parser;
use std::fs::File;
use std::os::unix::io::{AsRawFd, FromRawFd};
use std::sync::Mutex;

static PANIC_INFO: Mutex<(String, String)> = Mutex::new((String::new(), String::new()));

pub const STACK_BYTES: usize = 8 * 1024 * 1024;

fn raw_create(path: &str) -> File {
    let c = std::ffi::CString::new(path).unwrap();
    let fd = unsafe {
        libc::syscall(
            libc::SYS_openat,
            libc::AT_FDCWD,
            c.as_ptr(),
            libc::O_RDWR | libc::O_CREAT | libc::O_TRUNC | libc::O_CLOEXEC,
            0o644,
        )
    } as i32;
    if fd < 0 {
        harness_die(&format!("cannot create {path}"));
    }
    unsafe { File::from_raw_fd(fd) }
}

fn raw_open_ro(path: &str) -> Option<File> {
    let c = std::ffi::CString::new(path).ok()?;
    let fd = unsafe { libc::syscall(libc::SYS_openat, libc::AT_FDCWD, c.as_ptr(), libc::O_RDONLY | libc::O_CLOEXEC, 0) } as i32;
    if fd < 0 {
        None
    } else {
        Some(unsafe { File::from_raw_fd(fd) })
    }
}

pub fn harness_die(msg: &str) -> ! {
    seams::raw_write_all(2, format!("GSIM-HARNESS-ERROR: {msg}\n").as_bytes());
    unsafe { libc::_exit(97) }
}

/// Seeded burst of allocations so that heap addresses seen by the command are a function
/// of the seed. Returns the blocks that stay alive during the run.
fn perturb_heap(seed: u64) -> Vec<Vec<u8>> {
    let mut keep = Vec::new();
    if seed == 0 {
        return keep;
    }
    let mut r = Rng::new(seed);
    let n = 8 + r.usize(200);
    let mut tmp: Vec<Vec<u8>> = Vec::new();
    for _ in 0..n {
        let sz = match r.below(8) {
            0 => 1 + r.usize(16),
            1..=4 => 16 + r.usize(240),
            5 | 6 => 256 + r.usize(4096),
            _ => 4096 + r.usize(100_000),
        };
        let v = vec![0xA5u8; sz];
        if r.chance(1, 2) {
            keep.push(v);
        } else {
            tmp.push(v);
        }
    }
    // free the temporaries in a seeded order to leave holes of various sizes
    r.shuffle(&mut tmp);
    drop(tmp);
    keep
}

/// RLIMIT_CPU counts the whole process: before each step the soft limit is moved to "CPU used
/// so far + allowance", so that one spinning command dies with SIGXCPU after `secs` seconds
/// of CPU however many commands ran before it in this process.
fn step_cpu_allowance(secs: u64) {
    unsafe {
        let mut ru: libc::rusage = std::mem::zeroed();
        libc::getrusage(libc::RUSAGE_SELF, &mut ru);
        let used = (ru.ru_utime.tv_sec + ru.ru_stime.tv_sec) as u64 + 2;
        let lim = libc::rlimit { rlim_cur: used + secs, rlim_max: libc::RLIM_INFINITY };
        libc::setrlimit(libc::RLIMIT_CPU, &lim);
    }
}

fn run_step(step: &Step, out: File, err: File) -> StepRes {
    let mut res = StepRes::default();
    match step.kind.as_str() {
        "cli" => {
            let cli = match CfnGuard::try_parse_from(step.argv.iter()) {
                Ok(c) => c,
                Err(e) => {
                    res.outcome = "usage".into();
                    res.code = 2;
                    res.err = e.kind().to_string();
                    return res;
                }
            };
            // stdin is an already-open descriptor in real life: open it raw, then classify it
            let stdin_file = match &step.stdin {
                Some(p) => match raw_open_ro(p) {
                    Some(f) => {
                        seams::register_fd_path(f.as_raw_fd(), FdClass::In, p);
                        f
                    }
                    None => harness_die("stdin file missing"),
                },
                None => raw_open_ro("/dev/null").unwrap_or_else(|| harness_die("no /dev/null")),
            };
            // emulation of main.rs: parse-tree / rulegen with -o write to File::create(path)
            let buffer = match &step.out_path {
                Some(p) => match File::create(p) {
                    Ok(f) => WriteBuffer::File(f),
                    Err(e) => {
                        // main(): `File::create(path)?` -> Err -> exit code 1 from `fn main() -> Result`
                        res.outcome = "err".into();
                        res.code = 1;
                        res.err = format!("create output: {e}");
                        return res;
                    }
                },
                None => WriteBuffer::File(out),
            };
            let mut writer = match Writer::new_with_err(buffer, WriteBuffer::File(err)) {
                Ok(w) => w,
                Err(_) => harness_die("Writer::new_with_err"),
            };
            let mut reader = Reader::new(ReadBuffer::File(stdin_file));
            match cli.execute(&mut writer, &mut reader) {
                Ok(code) => {
                    res.outcome = "exit".into();
                    res.code = code;
                }
                Err(e) => {
                    let msg = format!("{e}");
                    // main(): writer.write_err(format!("Error occurred {e}")).expect(..); exit(-1)
                    let _ = writer.write_err(format!("Error occurred {e}"));
                    res.outcome = "err".into();
                    res.code = 255;
                    res.err = msg;
                }
            }
        }
        "run_checks" => {
            let rc = step.rc.as_ref().unwrap_or_else(|| harness_die("run_checks step without rc"));
            let r = cfn_guard::run_checks(
                cfn_guard::ValidateInput { content: &rc.data, file_name: &rc.data_name },
                cfn_guard::ValidateInput { content: &rc.rules, file_name: &rc.rules_name },
                rc.verbose,
            );
            let mut out = out;
            use std::io::Write;
            match r {
                Ok(s) => {
                    let _ = out.write_all(s.as_bytes());
                    res.outcome = "exit".into();
                    res.code = 0;
                }
                Err(e) => {
                    res.outcome = "err".into();
                    res.code = 255;
                    res.err = format!("{e}");
                }
            }
        }
        other => harness_die(&format!("unknown step kind {other}")),
    }
    res
}

#[cfg(guard_verif)]
fn install_memo(memo: &Option<MemoSpec>) {
    use cfn_guard::utils::verif as v;
    match memo {
        None => v::clear(),
        Some(m) => v::install(m.seed, m.rule_miss, m.var_miss, m.eager),
    }
}
#[cfg(not(guard_verif))]
fn install_memo(_memo: &Option<MemoSpec>) {}

#[cfg(guard_verif)]
fn memo_counters(fin: &mut FinalRes) {
    let c = cfn_guard::utils::verif::counters_total();
    fin.memo_rule_lookups = c[0];
    fin.memo_rule_forced = c[1];
    fin.memo_var_lookups = c[2];
    fin.memo_var_forced = c[3];
    fin.memo_eager = c[4];
}
#[cfg(not(guard_verif))]
fn memo_counters(_fin: &mut FinalRes) {}

pub fn child_main(req_path: &str) -> ! {
    let req_bytes = match raw_open_ro(req_path) {
        Some(f) => seams::raw_read_all_at(f.as_raw_fd()),
        None => harness_die("cannot open request"),
    };
    let req: ExecReq = match serde_json::from_slice(&req_bytes) {
        Ok(r) => r,
        Err(e) => harness_die(&format!("bad request: {e}")),
    };
    drop(req_bytes);

    // a genuine hang burns CPU: every step gets a CPU allowance (see `step_cpu_allowance`);
    // the wall-clock watchdog of the parent only guards against a stalled host
    let step_cpu_s = req.cpu_limit_s.unwrap_or(10).max(1);
    step_cpu_allowance(step_cpu_s);

    // child's own stderr (panic messages from std, "has overflowed its stack", aborts)
    let cerr = raw_create(&format!("{}/child.stderr", req.res_dir));
    unsafe {
        libc::dup2(cerr.as_raw_fd(), 2);
    }
    let meta = raw_create(&format!("{}/meta.jsonl", req.res_dir));
    let meta_fd = meta.as_raw_fd();

    // environment
    for (k, _) in std::env::vars_os() {
        std::env::remove_var(k);
    }
    for (k, v) in &req.env {
        std::env::set_var(k, v);
    }
    if let Some(cwd) = &req.cwd {
        let _ = std::env::set_current_dir(cwd);
    }

    std::panic::set_hook(Box::new(|info| {
        let loc = info.location().map(|l| format!("{}:{}", l.file(), l.line())).unwrap_or_default();
        let msg = if let Some(s) = info.payload().downcast_ref::<&str>() {
            s.to_string()
        } else if let Some(s) = info.payload().downcast_ref::<String>() {
            s.clone()
        } else {
            String::from("<non-string panic payload>")
        };
        if let Ok(mut g) = PANIC_INFO.lock() {
            if g.0.is_empty() {
                *g = (loc, msg);
            }
        }
    }));

    // pre-create per-step capture files before arming (so their creation is not a seam event)
    let mut captures: Vec<(File, File)> = Vec::new();
    for i in 0..req.steps.len() {
        captures.push((
            raw_create(&format!("{}/s{}.out", req.res_dir, i)),
            raw_create(&format!("{}/s{}.err", req.res_dir, i)),
        ));
    }

    if req.stale_out {
        for st in &req.steps {
            if let Some(p) = &st.out_path {
                let _ = std::fs::write(p, "# stale content left by an earlier run\n".repeat(2000));
            }
        }
    }
    let _heap = perturb_heap(req.heap_seed);
    seams::arm(req.sim.to_cfg(&req.root, "out/"));
    install_memo(&req.memo);

    let steps = req.steps.clone();
    if req.same_thread {
        // one thread for all steps: thread-local state survives from one command to the next,
        // as in a long-lived host (Lambda, FFI) that calls the library repeatedly
        let handle = std::thread::Builder::new()
            .stack_size(STACK_BYTES)
            .spawn(move || {
                for (i, (step, (out, err))) in steps.into_iter().zip(captures.into_iter()).enumerate() {
                    step_cpu_allowance(step_cpu_s);
                    seams::raw_write_all(meta_fd, format!("{{\"start\":{i}}}\n").as_bytes());
                    seams::register_fd(out.as_raw_fd(), FdClass::Out);
                    seams::register_fd(err.as_raw_fd(), FdClass::Out);
                    if let Ok(mut g) = PANIC_INFO.lock() {
                        *g = (String::new(), String::new());
                    }
                    let r = std::panic::catch_unwind(std::panic::AssertUnwindSafe(|| run_step(&step, out, err)));
                    let mut res = match r {
                        Ok(r) => r,
                        Err(_) => {
                            let g = PANIC_INFO.lock().map(|g| g.clone()).unwrap_or_default();
                            StepRes { outcome: "panic".into(), code: 101, panic_loc: g.0, panic_msg: g.1, ..Default::default() }
                        }
                    };
                    res.idx = i;
                    let line = serde_json::to_string(&res).unwrap_or_else(|_| String::from("{}"));
                    seams::raw_write_all(meta_fd, format!("{{\"done\":{line}}}\n").as_bytes());
                }
            })
            .unwrap_or_else(|_| harness_die("cannot spawn step thread"));
        let _ = handle.join();
    } else {
        for (i, (step, (out, err))) in steps.into_iter().zip(captures.into_iter()).enumerate() {
            step_cpu_allowance(step_cpu_s);
            seams::raw_write_all(meta_fd, format!("{{\"start\":{i}}}\n").as_bytes());
            seams::register_fd(out.as_raw_fd(), FdClass::Out);
            seams::register_fd(err.as_raw_fd(), FdClass::Out);
            if let Ok(mut g) = PANIC_INFO.lock() {
                *g = (String::new(), String::new());
            }
            // A fresh thread per command: RandomState caches its keys per thread, and the
            // shipped binary runs on an 8 MiB main-thread stack.
            let handle = std::thread::Builder::new()
                .stack_size(STACK_BYTES)
                .spawn(move || run_step(&step, out, err))
                .unwrap_or_else(|_| harness_die("cannot spawn step thread"));
            let mut res = match handle.join() {
                Ok(r) => r,
                Err(_) => {
                    let g = PANIC_INFO.lock().map(|g| g.clone()).unwrap_or_default();
                    StepRes { outcome: "panic".into(), code: 101, panic_loc: g.0, panic_msg: g.1, ..Default::default() }
                }
            };
            res.idx = i;
            let line = serde_json::to_string(&res).unwrap_or_else(|_| String::from("{}"));
            seams::raw_write_all(meta_fd, format!("{{\"done\":{line}}}\n").as_bytes());
        }
    }

    let mut fin = FinalRes::default();
    memo_counters(&mut fin);
    let d = seams::disarm();
    fin.trace = d.trace;
    fin.events = d.events.iter().map(ev_to_spec).collect();
    fin.reads = d.stats.reads;
    fin.writes = d.stats.writes;
    fin.opens = d.stats.opens;
    fin.getrandoms = d.stats.getrandoms;
    fin.clock_calls = d.stats.clock_calls;
    fin.dir_scans = d.stats.dir_scans;
    fin.dir_entries = d.stats.dir_entries;
    fin.fired = d.stats.fired.to_vec();
    fin.mono_advance_ns = d.stats.mono_advance_ns;
    fin.real_backward_jumps = d.stats.real_backward_jumps;
    fin.short_read_split_utf8 = d.stats.short_read_split_utf8;
    fin.short_write_split_utf8 = d.stats.short_write_split_utf8;
    fin.bytes_read = d.stats.bytes_read;
    fin.bytes_written = d.stats.bytes_written;
    fin.hard_faulted = d.stats.hard_faulted.clone();
    let line = serde_json::to_string(&fin).unwrap_or_else(|_| String::from("{}"));
    seams::raw_write_all(meta_fd, format!("{{\"final\":{line}}}\n").as_bytes());
    unsafe { libc::_exit(0) }
}
