//! C04 (history part) and C15 (history part only): verdicts must not depend on the order in
//! which clauses and rules are issued, on repetition, on whether a memoised rule status or
//! variable value is served from the memo or recomputed, or on which reference forces a
//! lazily evaluated variable first (eager vs lazy resolution).
//!
//! The evaluator-internal schedule is driven through the `guard_verif` hooks in /repo
//! (seeded forced memo misses, seeded eager resolution order); the issue order is the order
//! and multiplicity of lines in the rules text.

use crate::c05::{files_from_json, files_to_json, outcome_class};
use crate::doc::{self, DocFmt, J};
use crate::exec::{FileSpec, Work};
use crate::framework::*;
use crate::prng::{derive, Rng};
use crate::proto::*;
use crate::rules::{self, Arg, Body, Clause, Cmp, Func, GenOpts, Let, Line, Op, Part, Prog, Query, Rule};
use serde_json::{json, Value};
use std::collections::BTreeMap;

pub struct C04;
pub struct C15;

fn sv(xs: &[&str]) -> Vec<String> {
    xs.iter().map(|s| s.to_string()).collect()
}

// ---------------------------------------------------------------------------------------
// program transformations (issue order and multiplicity)
// ---------------------------------------------------------------------------------------

fn each_lines<F: FnMut(&mut Vec<Line>)>(p: &mut Prog, f: &mut F) {
    fn in_query<F: FnMut(&mut Vec<Line>)>(q: &mut Query, f: &mut F) {
        for part in q.parts.iter_mut() {
            if let Part::Filter { lines, .. } = part {
                in_lines(lines, f);
            }
        }
    }
    fn in_lines<F: FnMut(&mut Vec<Line>)>(ls: &mut Vec<Line>, f: &mut F) {
        f(ls);
        for l in ls.iter_mut() {
            for c in l.alts.iter_mut() {
                match c {
                    Clause::Cmp(c) => in_query(&mut c.q, f),
                    Clause::Block { q, body, .. } => {
                        in_query(q, f);
                        in_lines(&mut body.lines, f);
                    }
                    Clause::When { cond, body } => {
                        in_lines(cond, f);
                        in_lines(&mut body.lines, f);
                    }
                    Clause::Type { when, body, .. } => {
                        if !when.is_empty() {
                            in_lines(when, f);
                        }
                        in_lines(&mut body.lines, f);
                    }
                    _ => {}
                }
            }
        }
    }
    for r in p.rules.iter_mut() {
        if !r.when.is_empty() {
            in_lines(&mut r.when, f);
        }
        in_lines(&mut r.body.lines, f);
    }
    for pr in p.prules.iter_mut() {
        in_lines(&mut pr.body.lines, f);
    }
}

#[derive(Clone, Debug)]
pub struct Variant {
    pub text: String,
    /// (new name, original name) for rules duplicated under a new name
    pub dups: Vec<(String, String)>,
    pub what: String,
    /// or-alternatives were permuted: PASS short-circuits an or-line, so whether an erroring
    /// alternative is reached may legitimately depend on the order
    pub disjuncts_permuted: bool,
}

/// A seeded transformation of the issue order / multiplicity.
fn transform(r: &mut Rng, p0: &Prog) -> Variant {
    let mut p = p0.clone();
    let mut what = Vec::new();
    let mut dups = Vec::new();
    if r.chance(2, 3) {
        each_lines(&mut p, &mut |ls| {
            if ls.len() > 1 {
                let mut rr = Rng::new(ls.len() as u64 ^ 0x5a5a);
                let _ = &mut rr;
            }
        });
        let mut seeds: Vec<u64> = Vec::new();
        for _ in 0..64 {
            seeds.push(r.next());
        }
        let mut i = 0;
        each_lines(&mut p, &mut |ls| {
            let mut rr = Rng::new(seeds[i % seeds.len()]);
            i += 1;
            rr.shuffle(ls);
        });
        what.push("conjuncts permuted");
    }
    if r.chance(1, 2) {
        let mut seeds: Vec<u64> = Vec::new();
        for _ in 0..64 {
            seeds.push(r.next());
        }
        let mut i = 0;
        each_lines(&mut p, &mut |ls| {
            for l in ls.iter_mut() {
                let mut rr = Rng::new(seeds[i % seeds.len()]);
                i += 1;
                rr.shuffle(&mut l.alts);
            }
        });
        what.push("disjuncts permuted");
    }
    if r.chance(1, 2) {
        r.shuffle(&mut p.rules);
        what.push("rules permuted");
    }
    if r.chance(1, 3) {
        let mut seeds: Vec<u64> = Vec::new();
        for _ in 0..64 {
            seeds.push(r.next());
        }
        let mut i = 0;
        each_lines(&mut p, &mut |ls| {
            let mut rr = Rng::new(seeds[i % seeds.len()]);
            i += 1;
            if !ls.is_empty() && rr.chance(1, 3) {
                let k = rr.usize(ls.len());
                let l = ls[k].clone();
                let at = rr.usize(ls.len() + 1);
                ls.insert(at, l);
            }
        });
        what.push("clauses repeated");
    }
    // only a rule whose name has a single definition can be compared with its duplicate
    let unique: Vec<usize> = (0..p.rules.len()).filter(|i| p.rules.iter().filter(|x| x.name == p.rules[*i].name).count() == 1).collect();
    if r.chance(1, 3) && !unique.is_empty() {
        let k = unique[r.usize(unique.len())];
        let mut d = p.rules[k].clone();
        let orig = d.name.clone();
        d.name = format!("{}_dup", orig);
        dups.push((d.name.clone(), orig));
        let at = r.usize(p.rules.len() + 1);
        p.rules.insert(at, d);
        what.push("rule duplicated under a new name");
    }
    if what.is_empty() {
        what.push("identity");
    }
    let disjuncts_permuted = what.contains(&"disjuncts permuted");
    Variant { text: p.print(), dups, what: what.join(", "), disjuncts_permuted }
}

/// All permutations of 0..n (n <= 4), else `cap` sampled ones.
fn perms(r: &mut Rng, n: usize, cap: usize) -> Vec<Vec<usize>> {
    if n <= 4 {
        let mut out = Vec::new();
        let mut cur: Vec<usize> = (0..n).collect();
        fn heap(k: usize, a: &mut Vec<usize>, out: &mut Vec<Vec<usize>>) {
            if k <= 1 {
                out.push(a.clone());
                return;
            }
            for i in 0..k {
                heap(k - 1, a, out);
                if k % 2 == 0 {
                    a.swap(i, k - 1);
                } else {
                    a.swap(0, k - 1);
                }
            }
        }
        heap(n, &mut cur, &mut out);
        out.sort();
        out.dedup();
        out
    } else {
        (0..cap).map(|_| r.perm(n)).collect()
    }
}

// ---------------------------------------------------------------------------------------
// observation
// ---------------------------------------------------------------------------------------

/// rule name -> status, plus the file status; None if the output is not a report
fn statuses(stdout: &[u8]) -> Option<(BTreeMap<String, String>, String)> {
    let v = serde_json::from_slice::<Value>(stdout).ok()?;
    let rep = v.as_array()?.first()?.clone();
    let mut m = BTreeMap::new();
    for (k, st) in [("compliant", "PASS"), ("not_applicable", "SKIP")] {
        if let Some(a) = rep.get(k).and_then(|a| a.as_array()) {
            for n in a {
                if let Some(n) = n.as_str() {
                    m.insert(n.to_string(), st.to_string());
                }
            }
        }
    }
    if let Some(a) = rep.get("not_compliant").and_then(|a| a.as_array()) {
        for e in a {
            if let Some(n) = e.get("Rule").and_then(|r| r.get("name")).and_then(|n| n.as_str()) {
                m.insert(n.to_string(), "FAIL".to_string());
            }
        }
    }
    Some((m, rep.get("status").and_then(|s| s.as_str()).unwrap_or("").to_string()))
}

struct Outcome {
    class: String,
    st: Option<(BTreeMap<String, String>, String)>,
}

fn run_variants(w: &mut Work, rels: &[String], memo: Option<MemoSpec>, rep: &mut Report) -> (Vec<Outcome>, Option<FinalRes>) {
    let mut req = w.req();
    req.sim.clock_mode = "frozen".into();
    req.memo = memo;
    req.steps = rels
        .iter()
        .map(|rel| Step { kind: "cli".into(), argv: sv(&["cfn-guard", "validate", "-r", &format!("{}{}", w.root, rel), "-d", &format!("{}data/d0.json", w.root), "--structured", "-o", "json", "-S", "none"]), stdin: None, out_path: None, rc: None, label: String::new() })
        .collect();
    let o = w.run(&req);
    rep.absorb_exec(&o);
    let mut out = Vec::new();
    for i in 0..rels.len() {
        match o.steps.get(i) {
            Some(s) if o.died_in != Some(i) => out.push(Outcome { class: outcome_class(s), st: statuses(&s.stdout) }),
            _ => out.push(Outcome { class: format!("died:{}", o.end), st: None }),
        }
    }
    (out, o.fin.clone())
}

/// Substitution twins: `<x>_a` and `<x>_b` (see make_var_heavy) must have the same status.
fn twin_mismatch(m: &BTreeMap<String, String>) -> Option<String> {
    for (name, st) in m {
        if let Some(stem) = name.strip_suffix("_a") {
            if stem.starts_with("tw") {
                if let Some(other) = m.get(&format!("{}_b", stem)) {
                    if other != st {
                        return Some(format!("substitution twin {}: with the variable / call {} but written in place {}", stem, st, other));
                    }
                }
            }
        }
    }
    None
}

/// Compare a variant with the identity run. None = agree (or not comparable).
fn compare(base: &Outcome, var: &Outcome, dups: &[(String, String)], symmetric_errors: bool, rep: &mut Report) -> Option<String> {
    let ok = |c: &str| c == "exit:0" || c == "exit:19";
    // Conjunctions evaluate every line and errors are never memoised, so with the or-lines
    // left alone and no eager resolution an evaluation error cannot depend on the order:
    // an error on one side only means some reference saw something the other did not.
    if symmetric_errors && ((ok(&base.class) && var.class == "err:255") || (base.class == "err:255" && ok(&var.class))) {
        rep.count("compared", 1);
        return Some(format!("error asymmetry {} -> {}", base.class, var.class));
    }
    if !ok(&base.class) || !ok(&var.class) {
        // the proviso: no ordering may raise an evaluation error
        rep.count("skipped.evaluation_error", 1);
        return None;
    }
    let (bm, bs) = base.st.as_ref()?;
    let (vm, vs) = var.st.as_ref()?;
    if let Some(t) = twin_mismatch(vm) {
        return Some(t);
    }
    // a variant from which one side of the substitution twins was removed: the remaining
    // rules keep their statuses; the exit code and the file status may differ
    if bm.keys().any(|n| n.starts_with("tw") && !vm.contains_key(n)) {
        for (name, st) in vm {
            if let Some(b) = bm.get(name) {
                if b != st {
                    return Some(format!("rule status {} -> {}", b, st));
                }
            }
        }
        rep.count("compared", 1);
        return None;
    }
    if base.class != var.class {
        return Some(format!("exit {} -> {}", base.class, var.class));
    }
    if bs != vs {
        return Some(format!("file status {} -> {}", bs, vs));
    }
    for (name, st) in bm {
        match vm.get(name) {
            Some(v) if v == st => {}
            Some(v) => return Some(format!("rule status {} -> {}", st, v)),
            None => return Some("rule missing from the report".to_string()),
        }
    }
    for (new, orig) in dups {
        match (vm.get(new), bm.get(orig)) {
            (Some(a), Some(b)) if a == b => {}
            (a, b) => return Some(format!("duplicate rule status {:?} vs original {:?}", a, b)),
        }
    }
    rep.count("compared", 1);
    None
}

// ---------------------------------------------------------------------------------------
// C04
// ---------------------------------------------------------------------------------------

fn gen_c04(r: &mut Rng) -> (J, Prog) {
    let mut d = if r.chance(1, 4) { doc::gen_cfn(r) } else { doc::gen_doc(r) };
    let with_recs = r.chance(1, 3);
    if with_recs {
        add_recs(r, &mut d);
    }
    let o = GenOpts { captures: false, functions: r.chance(1, 4), allow_now: false, default_clauses: false, max_rules: 6, ..Default::default() };
    let mut p = rules::gen_prog(r, &d, &o);
    // make sure named-rule references exist (from when-conditions and from bodies)
    let names: Vec<String> = p.rules.iter().map(|x| x.name.clone()).collect();
    for i in 1..p.rules.len() {
        if r.chance(1, 2) {
            let t = names[r.usize(i)].clone();
            let c = Clause::Ref { not: r.chance(1, 3), name: t, msg: None };
            if r.chance(1, 2) {
                p.rules[i].when.push(Line { alts: vec![c] });
            } else {
                let at = r.usize(p.rules[i].body.lines.len() + 1);
                p.rules[i].body.lines.insert(at, Line { alts: vec![c] });
            }
        }
    }
    // single-clause probe rules make a named rule's status directly visible as a verdict
    // (inside a bigger rule a wrong reference is often masked by other failing clauses)
    for n in &names {
        match r.below(6) {
            0 | 1 => p.rules.push(Rule { name: format!("probe_{n}"), when: vec![], body: Body { lets: vec![], lines: vec![Line { alts: vec![Clause::Ref { not: false, name: n.clone(), msg: None }] }] } }),
            2 => p.rules.push(Rule { name: format!("nprobe_{n}"), when: vec![], body: Body { lets: vec![], lines: vec![Line { alts: vec![Clause::Ref { not: true, name: n.clone(), msg: None }] }] } }),
            3 => p.rules.push(Rule { name: format!("wprobe_{n}"), when: vec![Line { alts: vec![Clause::Ref { not: r.chance(1, 2), name: n.clone(), msg: None }] }], body: Body { lets: vec![], lines: vec![Line { alts: vec![Clause::Cmp(Cmp { not: false, q: Query { some: false, parts: vec![Part::Key("zz_not_there".into())] }, op: Op::Exists, opnot: true, rhs: None, msg: None })] }] } }),
            _ => {}
        }
    }
    if r.chance(1, 12) {
        // two function-valued variables defined in terms of each other: an evaluation error in
        // every order (the proviso), never an order-dependent verdict
        let f = |v: &str| Arg::Func(Box::new(Func { name: "count".into(), args: vec![Arg::Query(Query { some: false, parts: vec![Part::Var(v.to_string())] })] }));
        p.lets.push(Let { name: "cya".into(), val: f("cyb") });
        p.lets.push(Let { name: "cyb".into(), val: f("cya") });
        let c = |v: &str, n: i64| Line { alts: vec![Clause::Cmp(Cmp { not: false, q: Query { some: false, parts: vec![Part::Var(v.to_string())] }, op: Op::Eq, opnot: false, rhs: Some(rules::Rhs::Lit(J::Int(n))), msg: None })] };
        p.rules.push(Rule { name: "probe_cycle".into(), when: vec![], body: Body { lets: vec![], lines: vec![c("cya", 1), c("cyb", 0)] } });
    }
    if with_recs {
        add_some_variable_probes(r, &mut p);
        // two clauses in one scope that differ only INSIDE their filter, with different
        // outcomes (`nick` exists in every other record), alone in a rule
        let names: Vec<String> = match doc::at(&d, &[doc::Seg::Key("recs".into())]) {
            Some(J::List(xs)) => xs.iter().filter_map(|x| if let J::Map(m) = x { m.iter().find(|(k, _)| k == "name").and_then(|(_, v)| if let J::Str(s) = v { Some(s.clone()) } else { None }) } else { None }).collect(),
            _ => vec![],
        };
        if names.len() >= 2 {
            let mk = |n: &str| Line { alts: vec![Clause::Cmp(Cmp { not: false, q: Query { some: false, parts: vec![Part::Key("recs".into()), Part::Filter { cap: None, lines: vec![Line { alts: vec![Clause::Cmp(Cmp { not: false, q: Query { some: false, parts: vec![Part::Key("name".into())] }, op: Op::Eq, opnot: false, rhs: Some(rules::Rhs::Lit(J::Str(n.to_string()))), msg: None })] }] }, Part::Key("nick".into())] }, op: Op::Exists, opnot: false, rhs: None, msg: None })] };
            let mut lines = vec![mk(&names[0]), mk(&names[1])];
            if r.chance(1, 2) {
                lines.swap(0, 1);
            }
            p.rules.push(Rule { name: "probe_pair".into(), when: vec![], body: Body { lets: vec![], lines } });
        }
    }
    // blocks that select the same values, one after the other, the first with a variable of its
    // own that shadows an outer one, the second using the outer one (each block is a scope)
    if r.chance(1, 3) {
        let ty = match doc::at(&d, &[doc::Seg::Key("Resources".into())]) {
            Some(J::Map(res)) => res.iter().find_map(|(_, v)| if let J::Map(m) = v { m.iter().find_map(|(k, t)| if k == "Type" { if let J::Str(t) = t { Some(t.clone()) } else { None } } else { None }) } else { None }),
            _ => None,
        };
        p.lets.push(Let { name: "shv".into(), val: Arg::Lit(J::Str("outer".into())) });
        let cl = |lit: &str| Line { alts: vec![Clause::Cmp(Cmp { not: false, q: Query { some: false, parts: vec![Part::Var("shv".into())] }, op: Op::Eq, opnot: false, rhs: Some(rules::Rhs::Lit(J::Str(lit.into()))), msg: None })] };
        let first = Body { lets: vec![Let { name: "shv".into(), val: Arg::Lit(J::Str("inner".into())) }], lines: vec![cl("inner")] };
        let second = Body { lets: vec![], lines: vec![cl("outer")] };
        let other = Line { alts: vec![Clause::Cmp(Cmp { not: false, q: Query { some: false, parts: vec![Part::Key("zz_not_there".into())] }, op: Op::Exists, opnot: true, rhs: None, msg: None })] };
        let (b1, b2) = match ty {
            Some(ty) => (Clause::Type { ty: ty.clone(), when: vec![], body: first }, Clause::Type { ty, when: vec![], body: second }),
            None => {
                // not a template: query blocks over the first top-level container
                let key = match &d {
                    J::Map(kv) => kv.iter().find(|(_, v)| matches!(v, J::Map(m) if !m.is_empty()) || matches!(v, J::List(l) if !l.is_empty())).map(|(k, _)| k.clone()),
                    _ => None,
                };
                let q = Query { some: false, parts: vec![Part::Key(key.unwrap_or_else(|| "zz_none".into()))] };
                (Clause::Block { q: q.clone(), not_empty: false, body: first }, Clause::Block { q, not_empty: false, body: second })
            }
        };
        let mut lines = vec![Line { alts: vec![b1] }, Line { alts: vec![b2] }];
        if r.chance(1, 2) {
            lines.push(other);
        }
        p.rules.push(Rule { name: "probe_shadow".into(), when: vec![], body: Body { lets: vec![], lines } });
    }
    // the documented idiom "one name, several definitions with mutually exclusive guards":
    // exactly one definition can be non-SKIP, so the named status is order independent
    if r.chance(1, 3) && !p.rules.is_empty() {
        let key = match &d {
            J::Map(kv) if !kv.is_empty() && r.chance(2, 3) => kv[r.usize(kv.len())].0.clone(),
            _ => "zz_not_there".to_string(),
        };
        let guard = |neg: bool| Line { alts: vec![Clause::Cmp(Cmp { not: false, q: Query { some: false, parts: vec![Part::Key(key.clone())] }, op: Op::Exists, opnot: neg, rhs: None, msg: None })] };
        let k = r.usize(p.rules.len());
        let donor = r.usize(p.rules.len());
        let mut second = p.rules[donor].clone();
        second.name = p.rules[k].name.clone();
        second.when = vec![guard(true)];
        // the donor's body may refer to rules defined later; keep only plain clauses
        second.body.lines.retain(|l| l.alts.iter().all(|c| !matches!(c, Clause::Ref { .. })));
        if second.body.lines.is_empty() {
            second.body.lines.push(guard(true));
        }
        let n_name = p.rules[k].name.clone();
        p.rules[k].when.insert(0, guard(false));
        let at = r.usize(p.rules.len() + 1);
        p.rules.insert(at, second);
        // and a user of that name somewhere (a reference cycle, if one arises, is an
        // evaluation error in every order and is skipped by the proviso)
        let users: Vec<usize> = (0..p.rules.len()).filter(|i| p.rules[*i].name != n_name).collect();
        if !users.is_empty() {
            let u = users[r.usize(users.len())];
            p.rules[u].body.lines.push(Line { alts: vec![Clause::Ref { not: r.chance(1, 4), name: n_name, msg: None }] });
        }
    }
    (d, p)
}

fn scn_json(files: &[FileSpec], variant: &str, dups: &[(String, String)], memo: &Option<MemoSpec>, symmetric_errors: bool) -> Value {
    json!({"files": files_to_json(files), "variant": variant, "dups": dups, "symmetric_errors": symmetric_errors, "memo": memo.as_ref().map(|m| json!({"seed": m.seed, "rule_miss": m.rule_miss, "var_miss": m.var_miss, "eager": m.eager}))})
}

fn replay_generic(w: &mut Work, v: &Value) -> Vec<Violation> {
    let files = files_from_json(v.get("files").unwrap_or(&Value::Null));
    let variant = v.get("variant").and_then(|s| s.as_str()).unwrap_or("").to_string();
    let dups: Vec<(String, String)> = serde_json::from_value(v.get("dups").cloned().unwrap_or(Value::Null)).unwrap_or_default();
    let memo = v.get("memo").and_then(|m| if m.is_null() { None } else { Some(MemoSpec { seed: m.get("seed")?.as_u64()?, rule_miss: m.get("rule_miss")?.as_u64()? as u16, var_miss: m.get("var_miss")?.as_u64()? as u16, eager: m.get("eager")?.as_u64()? as u16 }) });
    w.materialise(&files);
    let mut rep = Report::default();
    let (b, _) = run_variants(w, &["rules/v0.guard".to_string()], None, &mut rep);
    let (o, _) = run_variants(w, &[variant], memo, &mut rep);
    let sym = v.get("symmetric_errors").and_then(|b| b.as_bool()).unwrap_or(false);
    match compare(&b[0], &o[0], &dups, sym, &mut rep) {
        Some(d) => vec![Violation { signature: format!("verdict/{}", d.split(' ').next().unwrap_or("")), what: d, replay: Value::Null, shrink_execs: 0, minimised: false }],
        None => vec![],
    }
}

fn sig_of(diff: &str, kind: &str) -> String {
    // "rule status PASS -> FAIL" => rule-status; "file status .." => file-status; "exit .." => exit
    let mut it = diff.split(' ');
    let a = it.next().unwrap_or("");
    let b = it.next().unwrap_or("");
    if a == "substitution" {
        // the side oracle does not depend on the schedule dimension it happened to be seen under
        return format!("substitution/{}", it.next().unwrap_or("").trim_end_matches(':'));
    }
    let head = if a == "exit" { "exit".to_string() } else { format!("{a}-{b}") };
    // ("error asymmetry .." -> error-asymmetry)
    format!("{kind}/{head}")
}

impl Check for C04 {
    fn id(&self) -> &'static str {
        "C04"
    }
    fn level(&self) -> &'static str {
        "exploration"
    }
    fn scenarios(&self, tier: Tier) -> u64 {
        match tier {
            Tier::Quick => 500,
            Tier::Thorough => 15000,
        }
    }
    fn rule_text(&self) -> String {
        "scenario n = a generated rules file (distinct rule names; named-rule references forming a DAG, from when-conditions and bodies, also negated; or-lines; blocks; filters; no key-capture variables) x one document. Issue-order schedule: one level (rule order, the lines of one body, the alternatives of one line) is permuted EXHAUSTIVELY when it has <= 4 items (24 sampled permutations beyond), plus seeded composite transformations (all conjunct lists permuted, all or-lines permuted, rules permuted, clauses repeated, a rule duplicated under a new name). Memo schedule (guard_verif hook): every named-rule memo lookup is forced to miss with probability p in {0, 1/4, 1/2, 1}. Oracle: per-rule statuses, file status and exit code equal those of the identity order with the memo undisturbed, whenever neither run raised an evaluation error. distinct_nontrivial = distinct (transformation kind, memo p, outcome) triples plus distinct rule-status vectors".into()
    }
    fn assumptions(&self) -> Vec<String> {
        vec![
            "only the history part of C04 is decided: issue order / multiplicity of clauses and rules, and named-rule memo hit vs recompute; key-capture variables are excluded (their store grows on every traversal by design)".into(),
            "needs the guard_verif hooks in /repo (commit in MANIFEST.hooks.source_commits)".into(),
            "the simulated clock is frozen during these runs".into(),
        ]
    }
    fn required_reach(&self, tier: Tier) -> Vec<(&'static str, u64)> {
        let mut v = vec![("compared", 1), ("memo.rule_forced_miss", 1)];
        if tier == Tier::Thorough {
            v.push(("reach.rule_referenced_before_definition", 1));
        }
        v
    }

    fn run_scenario(&self, w: &mut Work, base_seed: u64, n: u64, tier: Tier) -> Report {
        let mut rep = Report::new(n);
        let seed = derive(base_seed, "C04", n);
        let mut r = Rng::stream(seed, "workload");
        let (d, p) = gen_c04(&mut r);
        let mut files = vec![
            FileSpec { rel: "data/d0.json".into(), bytes: doc::render(&d, DocFmt::JsonPretty).into_bytes(), mtime_ns: 0 },
            FileSpec { rel: "rules/v0.guard".into(), bytes: p.print().into_bytes(), mtime_ns: 0 },
        ];
        // variants: exhaustive permutations of one level
        let mut variants: Vec<Variant> = Vec::new();
        let level = r.below(3);
        if level == 0 && p.rules.len() > 1 {
            for perm in perms(&mut r, p.rules.len(), 24) {
                let mut q = p.clone();
                q.rules = perm.iter().map(|i| p.rules[*i].clone()).collect();
                // a rule referenced before its definition?
                let names: Vec<&String> = q.rules.iter().map(|x| &x.name).collect();
                let text = q.print();
                for (i, rr) in q.rules.iter().enumerate() {
                    let mut body = String::new();
                    rr.body.lines.iter().for_each(|l| l.alts.iter().for_each(|c| {
                        if let Clause::Ref { name, .. } = c {
                            body.push_str(name);
                            body.push(' ');
                        }
                    }));
                    rr.when.iter().for_each(|l| l.alts.iter().for_each(|c| {
                        if let Clause::Ref { name, .. } = c {
                            body.push_str(name);
                            body.push(' ');
                        }
                    }));
                    for t in body.split_whitespace() {
                        if let Some(j) = names.iter().position(|n| n.as_str() == t) {
                            if j > i {
                                rep.count("reach.rule_referenced_before_definition", 1);
                            }
                        }
                    }
                }
                variants.push(Variant { text, dups: vec![], what: "rule order permuted (exhaustive level)".into(), disjuncts_permuted: false });
            }
        } else if level == 1 {
            // the lines of one rule body
            let k = r.usize(p.rules.len());
            let nl = p.rules[k].body.lines.len();
            if nl > 1 {
                for perm in perms(&mut r, nl, 24) {
                    let mut q = p.clone();
                    q.rules[k].body.lines = perm.iter().map(|i| p.rules[k].body.lines[*i].clone()).collect();
                    variants.push(Variant { text: q.print(), dups: vec![], what: "lines of one rule body permuted (exhaustive level)".into(), disjuncts_permuted: false });
                }
            }
        } else {
            // the alternatives of one or-line
            let mut cands: Vec<(usize, usize)> = Vec::new();
            for (ri, rr) in p.rules.iter().enumerate() {
                for (li, l) in rr.body.lines.iter().enumerate() {
                    if l.alts.len() > 1 {
                        cands.push((ri, li));
                    }
                }
            }
            if !cands.is_empty() {
                let (ri, li) = cands[r.usize(cands.len())];
                let na = p.rules[ri].body.lines[li].alts.len();
                for perm in perms(&mut r, na, 24) {
                    let mut q = p.clone();
                    q.rules[ri].body.lines[li].alts = perm.iter().map(|i| p.rules[ri].body.lines[li].alts[*i].clone()).collect();
                    variants.push(Variant { text: q.print(), dups: vec![], what: "alternatives of one or-line permuted (exhaustive level)".into(), disjuncts_permuted: true });
                }
            }
        }
        let ncomp = match tier {
            Tier::Quick => 4,
            Tier::Thorough => 10,
        };
        for _ in 0..ncomp {
            variants.push(transform(&mut r, &p));
        }
        variants.push(Variant { text: p.print(), dups: vec![], what: "identity".into(), disjuncts_permuted: false });
        let mut rels = Vec::new();
        for (i, v) in variants.iter().enumerate() {
            let rel = format!("rules/v{}.guard", i + 1);
            files.push(FileSpec { rel: rel.clone(), bytes: v.text.clone().into_bytes(), mtime_ns: 0 });
            rels.push(rel);
        }
        w.materialise(&files);
        let (base, _) = run_variants(w, &["rules/v0.guard".to_string()], None, &mut rep);
        rep.count(&format!("base.{}", base[0].class.replace(':', "_")), 1);
        if let Some((m, _)) = &base[0].st {
            let mut vec: Vec<String> = m.values().cloned().collect();
            vec.sort();
            rep.classes.push(format!("statuses|{}", vec.join("")));
        }
        let ps: &[u16] = &[0, 64, 128, 256];
        let mut done: Vec<String> = Vec::new();
        for (pi, pmiss) in ps.iter().enumerate() {
            let memo = if *pmiss == 0 { None } else { Some(MemoSpec { seed: derive(seed, "memo", pi as u64), rule_miss: *pmiss, var_miss: 0, eager: 0 }) };
            let (outs, fin) = run_variants(w, &rels, memo.clone(), &mut rep);
            if let Some(f) = &fin {
                if f.memo_rule_forced >= 2 {
                    rep.count("reach.rule_reevaluated_under_forced_miss", 1);
                }
            }
            for (i, o) in outs.iter().enumerate() {
                rep.classes.push(format!("{}|p{}|{}", variants[i].what, pmiss, o.class));
                // C04's statement carries the proviso "provided no ordering raises an evaluation
                // error" (e.g. which definition of a multiply-defined rule is reached first decides
                // whether a reference cycle is entered): errors are never compared here
                let sym = false;
                if let Some(diff) = compare(&base[0], o, &variants[i].dups, sym, &mut rep) {
                    let kind = if *pmiss == 0 { "order" } else { "memo" };
                    let sig = sig_of(&diff, kind);
                    if done.contains(&sig) {
                        continue;
                    }
                    done.push(sig.clone());
                    // confirm alone in fresh processes
                    let mut crep = Report::default();
                    let (b2, _) = run_variants(w, &["rules/v0.guard".to_string()], None, &mut crep);
                    let (o2, _) = run_variants(w, &[rels[i].clone()], memo.clone(), &mut crep);
                    rep.execs += crep.execs;
                    let again = compare(&b2[0], &o2[0], &variants[i].dups, sym, &mut crep);
                    if again.as_ref().map(|d| sig_of(d, kind)) != Some(sig.clone()) {
                        rep.count("harness.unconfirmed_findings", 1);
                        continue;
                    }
                    let keep: Vec<FileSpec> = files.iter().filter(|f| f.rel == "data/d0.json" || f.rel == "rules/v0.guard" || f.rel == rels[i]).cloned().collect();
                    rep.violations.push(Violation {
                        signature: sig,
                        what: format!("{} [{}; rule-memo forced-miss p={}/256]: {}", "verdict changed", variants[i].what, pmiss, diff),
                        replay: scn_json(&keep, &rels[i], &variants[i].dups, &memo, sym),
                        shrink_execs: 0,
                        minimised: true,
                    });
                }
            }
        }
        if n < 3 {
            rep.sample = Some(json!({"rules_identity": p.print().chars().take(700).collect::<String>(), "variants": variants.iter().map(|v| v.what.clone()).collect::<Vec<_>>(), "base": base[0].class}));
        }
        rep
    }

    fn replay(&self, w: &mut Work, v: &Value) -> Vec<Violation> {
        let mut out = replay_generic(w, v);
        let memo_on = v.get("memo").map(|m| !m.is_null()).unwrap_or(false);
        for x in out.iter_mut() {
            x.signature = sig_of(&x.what, if memo_on { "memo" } else { "order" });
        }
        out
    }
}

// ---------------------------------------------------------------------------------------
// C15
// ---------------------------------------------------------------------------------------

/// Records with distinct names; `nick` is present in some records only, so that
/// `some recs[*].nick` leaves unresolved entries to filter.
fn add_recs(r: &mut Rng, d: &mut J) {
    let pool = ["alpha", "beta", "Gamma", "a%20b", "data", "banana"];
    let n = 2 + r.usize(2);
    let mut idx = r.perm(pool.len());
    idx.truncate(n);
    let recs: Vec<J> = idx
        .iter()
        .enumerate()
        .map(|(i, k)| {
            let mut m = vec![("name".to_string(), J::Str(pool[*k].into())), ("n".to_string(), J::Int(i as i64))];
            if i % 2 == 0 {
                m.push(("nick".to_string(), J::Str(format!("n{}", i))));
            }
            J::Map(m)
        })
        .collect();
    if let J::Map(kv) = d {
        kv.push(("recs".into(), J::List(recs)));
    }
}

/// A file-level `some` variable whose query leaves unresolved entries, referenced from
/// several single-purpose rules (which reference forces it first depends on the order).
fn add_some_variable_probes(r: &mut Rng, p: &mut Prog) {
    let some = r.chance(3, 4);
    p.lets.push(Let { name: "sq".into(), val: Arg::Query(Query { some, parts: vec![Part::Key("recs".into()), Part::AllIdx, Part::Key("nick".into())] }) });
    let mk = |op: Op, opnot: bool| Line { alts: vec![Clause::Cmp(Cmp { not: false, q: Query { some: false, parts: vec![Part::Var("sq".into())] }, op, opnot, rhs: None, msg: None })] };
    let mut lines = vec![mk(Op::Exists, false), mk(Op::IsString, false), mk(Op::Empty, true)];
    r.shuffle(&mut lines);
    p.rules.push(Rule { name: "probe_sq".into(), when: vec![], body: Body { lets: vec![], lines } });
    p.rules.push(Rule { name: "probe_sq2".into(), when: vec![mk(Op::Exists, false)], body: Body { lets: vec![], lines: vec![mk(Op::IsString, false)] } });
    p.rules.push(Rule { name: "probe_sq3".into(), when: vec![], body: Body { lets: vec![], lines: vec![mk(Op::IsString, false)] } });
}

fn var_clause(name: &str, r: &mut Rng) -> Clause {
    let (op, opnot) = *r.pick(&[(Op::Exists, false), (Op::Empty, true), (Op::Exists, true), (Op::IsString, false), (Op::IsList, true)]);
    Clause::Cmp(Cmp { not: false, q: Query { some: r.chance(1, 4), parts: vec![Part::Var(name.to_string())] }, op, opnot, rhs: None, msg: None })
}

/// Make every declared variable referenced at least twice from different places, and add
/// unused variables (some of whose definitions would raise an error if evaluated).
fn make_var_heavy(r: &mut Rng, p: &mut Prog, d: &J) {
    let top_keys: Vec<String> = match d {
        J::Map(kv) => kv.iter().map(|(k, _)| k.clone()).collect(),
        _ => vec![],
    };
    let key = |r: &mut Rng| -> String { if top_keys.is_empty() { "a".into() } else { top_keys[r.usize(top_keys.len())].clone() } };
    // a few extra file-level variables of each kind
    let k1 = key(r);
    p.lets.push(Let { name: "fq".into(), val: Arg::Query(Query { some: false, parts: vec![Part::Key(k1.clone())] }) });
    p.lets.push(Let { name: "fc".into(), val: Arg::Func(Box::new(Func { name: "count".into(), args: vec![Arg::Query(Query { some: false, parts: vec![Part::Key(k1), Part::Star] })] })) });
    if matches!(d, J::Map(kv) if kv.iter().any(|(k, _)| k == "recs")) {
        add_some_variable_probes(r, p);
    }
    // a variable first referenced from a when-condition, and one referenced from inside a filter
    p.rules.push(Rule { name: "probe_when".into(), when: vec![Line { alts: vec![var_clause("fq", r)] }], body: Body { lets: vec![], lines: vec![Line { alts: vec![var_clause("fq", r)] }, Line { alts: vec![var_clause("fc", r)] }] } });
    if let J::Map(kv) = d {
        if let Some((_, J::List(recs))) = kv.iter().find(|(k, _)| k == "recs") {
            if let Some(J::Map(m)) = recs.first() {
                if let Some((_, J::Str(n0))) = m.iter().find(|(k, _)| k == "name") {
                    p.lets.push(Let { name: "want".into(), val: Arg::Lit(J::Str(n0.clone())) });
                    let filt = Part::Filter { cap: None, lines: vec![Line { alts: vec![Clause::Cmp(Cmp { not: false, q: Query { some: false, parts: vec![Part::Key("name".into())] }, op: Op::Eq, opnot: r.chance(1, 3), rhs: Some(rules::Rhs::Query(Query { some: false, parts: vec![Part::Var("want".into())] })), msg: None })] }] };
                    let c = Clause::Cmp(Cmp { not: false, q: Query { some: false, parts: vec![Part::Key("recs".into()), filt, Part::Key("n".into())] }, op: Op::Exists, opnot: false, rhs: None, msg: None });
                    p.rules.push(Rule { name: "probe_filter".into(), when: vec![], body: Body { lets: vec![], lines: vec![Line { alts: vec![c] }, Line { alts: vec![var_clause("want", r)] }] } });
                }
            }
        }
    }
    // shadowing: a rule-level variable with the name of a file-level one, bound to something else
    if !p.rules.is_empty() && r.chance(1, 2) {
        let k = r.usize(p.rules.len());
        let kk = key(r);
        p.rules[k].body.lets.push(Let { name: "fq".into(), val: Arg::Query(Query { some: false, parts: vec![Part::Key(kk), Part::Key("zz_inner".into())] }) });
        let c1 = var_clause("fq", r);
        let c2 = var_clause("fq", r);
        p.rules[k].body.lines.push(Line { alts: vec![c1] });
        p.rules[k].body.lines.insert(0, Line { alts: vec![c2] });
    }
    let file_vars: Vec<String> = p.lets.iter().map(|l| l.name.clone()).collect();
    let nrules = p.rules.len();
    for v in &file_vars {
        for _ in 0..2 {
            let k = r.usize(nrules);
            let c = var_clause(v, r);
            let at = r.usize(p.rules[k].body.lines.len() + 1);
            p.rules[k].body.lines.insert(at, Line { alts: vec![c] });
        }
    }
    // single-clause probe rules for some file-level variables (verdict-level observability)
    for (i, v) in file_vars.iter().enumerate() {
        if r.chance(1, 3) {
            let c1 = var_clause(v, r);
            let c2 = var_clause(v, r);
            p.rules.push(Rule { name: format!("probe_v{}", i), when: vec![], body: Body { lets: vec![], lines: vec![Line { alts: vec![c1] }, Line { alts: vec![c2] }] } });
        }
    }
    // rule-level and block-level variables referenced twice
    for k in 0..nrules {
        let kk = key(r);
        let name = format!("rv{}", k);
        p.rules[k].body.lets.push(Let { name: name.clone(), val: if r.chance(1, 2) { Arg::Query(Query { some: false, parts: vec![Part::Key(kk)] }) } else { Arg::Func(Box::new(Func { name: "to_lower".into(), args: vec![Arg::Query(Query { some: false, parts: vec![Part::Key(kk)] })] })) } });
        for _ in 0..2 {
            let c = var_clause(&name, r);
            let at = r.usize(p.rules[k].body.lines.len() + 1);
            p.rules[k].body.lines.insert(at, Line { alts: vec![c] });
        }
        // block-level: a block over a container with its own variable, evaluated per element
        if let J::Map(kv) = d {
            if let Some((ck, cv)) = kv.iter().find(|(_, v)| matches!(v, J::List(xs) if !xs.is_empty()) || matches!(v, J::Map(m) if !m.is_empty())) {
                let mut parts = vec![Part::Key(ck.clone())];
                parts.push(if matches!(cv, J::List(_)) { Part::AllIdx } else { Part::Star });
                let bname = format!("bv{}", k);
                // block-level variable: query-valued, function-valued, or both; the function
                // result differs from element to element and a clause depends on it
                let first_elem_text = match cv {
                    J::List(xs) => xs.iter().find_map(|x| if let J::Str(s) = x { Some(s.clone()) } else { None }),
                    J::Map(m) => m.iter().find_map(|(_, x)| if let J::Str(s) = x { Some(s.clone()) } else { None }),
                    _ => None,
                };
                let fname = format!("bf{}", k);
                let mut blets = Vec::new();
                let mut blines = Vec::new();
                let kind = r.below(3);
                if kind != 1 {
                    blets.push(Let { name: bname.clone(), val: Arg::Query(Query { some: false, parts: vec![Part::This] }) });
                    blines.push(Line { alts: vec![var_clause(&bname, r)] });
                    blines.push(Line { alts: vec![var_clause(&bname, r), var_clause(&name, r)] });
                }
                if kind != 0 {
                    let fun = *r.pick(&["to_upper", "to_lower", "parse_string"]);
                    blets.push(Let { name: fname.clone(), val: Arg::Func(Box::new(Func { name: fun.into(), args: vec![Arg::Query(Query { some: false, parts: vec![Part::This] })] })) });
                    let lit = match (&first_elem_text, fun) {
                        (Some(t), "to_upper") if doc::is_guard_literal_safe(&J::Str(t.to_uppercase())) => J::Str(t.to_uppercase()),
                        (Some(t), "to_lower") if doc::is_guard_literal_safe(&J::Str(t.to_lowercase())) => J::Str(t.to_lowercase()),
                        (Some(t), _) if doc::is_guard_literal_safe(&J::Str(t.clone())) => J::Str(t.clone()),
                        _ => J::Str("X".into()),
                    };
                    blines.push(Line { alts: vec![Clause::Cmp(Cmp { not: false, q: Query { some: false, parts: vec![Part::Var(fname.clone())] }, op: Op::Eq, opnot: r.chance(1, 3), rhs: Some(rules::Rhs::Lit(lit)), msg: None })] });
                    blines.push(Line { alts: vec![var_clause(&fname, r)] });
                }
                let body = Body { lets: blets, lines: blines };
                if r.chance(2, 3) {
                    p.rules[k].body.lines.push(Line { alts: vec![Clause::Block { q: Query { some: false, parts }, not_empty: false, body }] });
                }
            }
        }
    }
    // a block over several records whose function-valued variable differs from record to
    // record (the document carries a `recs` list for this purpose)
    if let J::Map(kv) = d {
        if let Some((_, J::List(recs))) = kv.iter().find(|(k, _)| k == "recs") {
            let names: Vec<String> = recs.iter().filter_map(|x| if let J::Map(m) = x { m.iter().find(|(k, _)| k == "name").and_then(|(_, v)| if let J::Str(s) = v { Some(s.clone()) } else { None }) } else { None }).collect();
            if names.len() >= 2 && nrules > 0 {
                let k = r.usize(nrules);
                let fun = *r.pick(&["to_upper", "to_lower", "regex_replace", "substring", "url_decode", "parse_string"]);
                let arg = Arg::Query(Query { some: false, parts: vec![Part::Key("name".into())] });
                let args = match fun {
                    "regex_replace" => vec![arg, Arg::Lit(J::Str("a".into())), Arg::Lit(J::Str("_".into()))],
                    "substring" => vec![arg, Arg::Lit(J::Int(0)), Arg::Lit(J::Int(2))],
                    _ => vec![arg],
                };
                let expect = |s: &str| -> String {
                    match fun {
                        "to_upper" => s.to_uppercase(),
                        "to_lower" => s.to_lowercase(),
                        "regex_replace" => s.replace('a', "_"),
                        "substring" => s.chars().take(2).collect(),
                        _ => s.to_string(),
                    }
                };
                let which = r.usize(names.len());
                let mut blets = vec![Let { name: "rf".into(), val: Arg::Func(Box::new(Func { name: fun.into(), args })) }];
                if r.chance(1, 3) {
                    // an extra query-bound variable in the same block
                    blets.insert(0, Let { name: "rq".into(), val: Arg::Query(Query { some: false, parts: vec![Part::Key("n".into())] }) });
                }
                let mut blines = vec![Line { alts: vec![Clause::Cmp(Cmp { not: false, q: Query { some: false, parts: vec![Part::Var("rf".into())] }, op: Op::Eq, opnot: r.chance(1, 3), rhs: Some(rules::Rhs::Lit(J::Str(expect(&names[which])))), msg: None })] }];
                if r.chance(1, 2) {
                    blines.push(Line { alts: vec![var_clause("rf", r)] });
                }
                if blets.len() > 1 {
                    blines.push(Line { alts: vec![var_clause("rq", r)] });
                }
                let q = Query { some: r.chance(1, 4), parts: vec![Part::Key("recs".into()), Part::AllIdx] };
                let block = Clause::Block { q, not_empty: false, body: Body { lets: blets, lines: blines } };
                if r.chance(2, 3) {
                    // a dedicated probe rule: its status is the block's status, so a wrong
                    // value is visible at verdict level and not masked by other clauses
                    p.rules.push(Rule { name: "probe_block".into(), when: vec![], body: Body { lets: vec![], lines: vec![Line { alts: vec![block] }] } });
                } else {
                    let at = r.usize(p.rules[k].body.lines.len() + 1);
                    p.rules[k].body.lines.insert(at, Line { alts: vec![block] });
                }
            }
        }
    }
    // a long dependency chain of variables in one scope, referenced at several depths in
    // increasing order (each reference finds the previous links memoised)
    if r.chance(1, 5) {
        let n = 70 + r.usize(25);
        let k0 = key(r);
        p.lets.push(Let { name: "ch0".into(), val: Arg::Query(Query { some: false, parts: vec![Part::Key(k0)] }) });
        for i in 1..=n {
            p.lets.push(Let { name: format!("ch{i}"), val: Arg::Query(Query { some: false, parts: vec![Part::Var(format!("ch{}", i - 1))] }) });
        }
        let mut lines = Vec::new();
        let mut i = 1;
        while i < n {
            lines.push(Line { alts: vec![var_clause(&format!("ch{i}"), r)] });
            i += 20 + r.usize(20);
        }
        lines.push(Line { alts: vec![var_clause(&format!("ch{n}"), r)] });
        p.rules.push(Rule { name: "probe_chain".into(), when: vec![], body: Body { lets: vec![], lines } });
    }
    // unused variables; some definitions would raise an error if they were ever evaluated
    let nunused = r.usize(3);
    for i in 0..nunused {
        let kk = key(r);
        let val = match r.below(3) {
            0 => Arg::Func(Box::new(Func { name: "parse_int".into(), args: vec![Arg::Lit(J::Str("not a number".into()))] })),
            1 => Arg::Func(Box::new(Func { name: "parse_epoch".into(), args: vec![Arg::Query(Query { some: false, parts: vec![Part::Key(kk)] })] })),
            _ => Arg::Query(Query { some: false, parts: vec![Part::Key(kk), Part::Key("nope".into())] }),
        };
        if r.chance(1, 2) || nrules == 0 {
            p.lets.push(Let { name: format!("unused{}", i), val });
        } else {
            let k = r.usize(nrules);
            p.rules[k].body.lets.push(Let { name: format!("unused{}", i), val });
        }
    }
    // a parameterised rule called several times with different arguments, from different
    // rules and twice from one rule: what a call binds must not survive into the next call,
    // whichever comes first (the history part of "a call is its body with the arguments put in")
    if r.chance(1, 2) {
        let k1 = key(r);
        let k2 = key(r);
        let pq = |v: &str| Query { some: false, parts: vec![Part::Var(v.to_string())] };
        let mut plines = vec![
            Line { alts: vec![Clause::Cmp(Cmp { not: false, q: pq("pa"), op: Op::Exists, opnot: false, rhs: None, msg: None })] },
            Line { alts: vec![Clause::Cmp(Cmp { not: false, q: pq("pin"), op: *r.pick(&[Op::IsString, Op::IsList, Op::IsStruct]), opnot: r.chance(1, 2), rhs: None, msg: None })] },
            Line { alts: vec![Clause::Cmp(Cmp { not: false, q: pq("pb"), op: Op::Eq, opnot: false, rhs: Some(rules::Rhs::Lit(J::Int(1))), msg: None })] },
        ];
        r.shuffle(&mut plines);
        p.prules.push(rules::PRule { name: "pchk".into(), params: vec!["pa".into(), "pb".into()], body: Body { lets: vec![Let { name: "pin".into(), val: Arg::Query(pq("pa")) }], lines: plines } });
        let call = |k: &str, lit: i64, not: bool| Line { alts: vec![Clause::Call { not, name: "pchk".into(), args: vec![Arg::Query(Query { some: false, parts: vec![Part::Key(k.to_string())] }), Arg::Lit(J::Int(lit))], msg: None }] };
        let missing = format!("{}_zz", k2);
        p.rules.push(Rule { name: "probe_call_a".into(), when: vec![], body: Body { lets: vec![], lines: vec![call(&k1, 1, false)] } });
        p.rules.push(Rule { name: "probe_call_b".into(), when: vec![], body: Body { lets: vec![], lines: vec![call(&k2, 2, false)] } });
        p.rules.push(Rule { name: "probe_call_c".into(), when: vec![], body: Body { lets: vec![], lines: vec![call(&missing, 1, r.chance(1, 2))] } });
        let mut two = vec![call(&k1, 1, false), call(&k2, 1, false)];
        r.shuffle(&mut two);
        p.rules.push(Rule { name: "probe_call_d".into(), when: vec![], body: Body { lets: vec![], lines: two } });
        // caller variables that carry the NAMES of the callee's parameters, passed crosswise
        if r.chance(1, 2) {
            p.lets.push(Let { name: "pa".into(), val: Arg::Lit(J::Int(1)) });
            p.lets.push(Let { name: "pb".into(), val: Arg::Query(Query { some: false, parts: vec![Part::Key(k1.clone())] }) });
            let v = |n: &str| Arg::Query(Query { some: false, parts: vec![Part::Var(n.to_string())] });
            p.rules.push(Rule { name: "probe_call_x".into(), when: vec![], body: Body { lets: vec![], lines: vec![Line { alts: vec![Clause::Call { not: false, name: "pchk".into(), args: vec![v("pb"), v("pa")], msg: None }] }] } });
            p.rules.push(Rule { name: "probe_call_y".into(), when: vec![], body: Body { lets: vec![], lines: vec![Line { alts: vec![Clause::Call { not: false, name: "pchk".into(), args: vec![v("pb"), Arg::Lit(J::Int(2))], msg: None }] }] } });
        }
    }
    // Substitution twins (a side oracle on the same runs; no schedule involved): `<name>_a`
    // refers to a variable / calls a parameterised rule, `<name>_b` has the definition written
    // in place. The statement excepts only the emptiness test on a bare variable, which is
    // not used here; the two rules of a pair must get the same status in every run.
    // (only keys that print as bare identifiers: `let v = "quoted-key"` would bind a string)
    let ident_keys: Vec<String> = top_keys.iter().filter(|k| rules::is_ident_pub(k)).cloned().collect();
    if r.chance(2, 3) && !ident_keys.is_empty() {
        let mut k = ident_keys[r.usize(ident_keys.len())].clone();
        let shape = r.below(8);
        if shape == 6 {
            if let J::Map(kv) = d {
                if let Some((lk, _)) = kv.iter().find(|(kk, v)| rules::is_ident_pub(kk) && matches!(v, J::List(xs) if xs.iter().any(|x| matches!(x, J::Map(_))))) {
                    k = lk.clone();
                }
            }
        }
        if shape == 4 || shape == 5 {
            // the filter shape below wants a list with numbers in it, if the document has one
            if let J::Map(kv) = d {
                if let Some((lk, _)) = kv.iter().find(|(kk, v)| rules::is_ident_pub(kk) && matches!(v, J::List(xs) if xs.iter().any(|x| matches!(x, J::Int(_) | J::Float(_) | J::Bool(_))))) {
                    k = lk.clone();
                }
            }
        }
        let kq_plain = Query { some: false, parts: vec![Part::Key(k.clone())] };
        let mut kq = kq_plain.clone();
        // sometimes one more step that may not apply to the value (an index on a map, a key on
        // a list or scalar, ...): whether that is "unresolved" or an error, it must be the same
        // with and without the variable
        match shape {
            0 => kq.parts.push(Part::Idx(0)),
            1 => kq.parts.push(Part::Key("zz_in".into())),
            2 => kq.parts.push(Part::Star),
            3 => kq.parts.push(Part::AllIdx),
            6 => {
                // a filter nothing passes: an EMPTY result, neither unresolved nor an error
                kq.parts.push(Part::Filter { cap: None, lines: vec![Line { alts: vec![Clause::Cmp(Cmp { not: false, q: Query { some: false, parts: vec![Part::Key("zz_no".into())] }, op: Op::Eq, opnot: false, rhs: Some(rules::Rhs::Lit(J::Str("zz never".into()))), msg: None })] }] });
            }
            4 | 5 => {
                // a filter whose clause errs on some element types (`empty` on a number)
                kq.parts.push(Part::Filter { cap: None, lines: vec![Line { alts: vec![Clause::Cmp(Cmp { not: false, q: Query { some: false, parts: vec![Part::This] }, op: Op::Empty, opnot: r.chance(1, 2), rhs: None, msg: None })] }] });
            }
            _ => {}
        }
        // a value to compare with: the document's own value for that key (when it is a scalar
        // the tool's literal syntax can express), else a fixed one
        let dv = match d {
            J::Map(kv) => kv.iter().find(|(kk, _)| *kk == k).map(|(_, v)| v.clone()),
            _ => None,
        };
        let lit = match dv {
            Some(v @ (J::Str(_) | J::Int(_) | J::Bool(_))) if doc::is_guard_literal_safe(&v) => v,
            _ => J::Int(1),
        };
        let list_lit = J::List(vec![lit.clone(), J::Str("zz".into())]);
        let one_lit = J::List(vec![lit.clone()]);
        let cmp = |q: Query, op: Op, opnot: bool, rhs: Option<rules::Rhs>| Line { alts: vec![Clause::Cmp(Cmp { not: false, q, op, opnot, rhs, msg: None })] };
        let var = |n: &str| Query { some: false, parts: vec![Part::Var(n.to_string())] };
        let rule = |name: String, lets: Vec<Let>, lines: Vec<Line>| Rule { name, when: vec![], body: Body { lets, lines } };
        // (1) a query-valued variable on the left-hand side
        let (op, opnot, rhs) = match r.below(6) {
            0 => (Op::Exists, false, None),
            1 => (Op::IsString, r.chance(1, 2), None),
            2 => (Op::IsList, r.chance(1, 2), None),
            3 => (Op::Eq, false, Some(rules::Rhs::Lit(lit.clone()))),
            4 => (Op::Eq, true, Some(rules::Rhs::Lit(lit.clone()))),
            _ => (Op::In, r.chance(1, 3), Some(rules::Rhs::Lit(list_lit.clone()))),
        };
        let scope_file = r.chance(1, 2);
        let def = Let { name: "twq".into(), val: Arg::Query(kq.clone()) };
        if scope_file {
            p.lets.push(def.clone());
        }
        p.rules.push(rule("tw1_a".into(), if scope_file { vec![] } else { vec![def] }, vec![cmp(var("twq"), op, opnot, rhs.clone())]));
        p.rules.push(rule("tw1_b".into(), vec![], vec![cmp(kq.clone(), op, opnot, rhs)]));
        // (2) a literal-valued variable on the right-hand side (scalar, list, one-element list)
        let l2 = match r.below(3) {
            0 => lit.clone(),
            1 => list_lit.clone(),
            _ => one_lit.clone(),
        };
        let op2 = if matches!(l2, J::List(_)) && r.chance(1, 2) { Op::In } else { Op::Eq };
        let not2 = r.chance(1, 3);
        p.lets.push(Let { name: "twl".into(), val: Arg::Lit(l2.clone()) });
        p.rules.push(rule("tw2_a".into(), vec![], vec![cmp(kq_plain.clone(), op2, not2, Some(rules::Rhs::Query(var("twl"))))]));
        p.rules.push(rule("tw2_b".into(), vec![], vec![cmp(kq_plain.clone(), op2, not2, Some(rules::Rhs::Lit(l2)))]));
        // (3) a parameterised rule: query argument on the left, literal argument on the right
        let l3 = match r.below(3) {
            0 => lit.clone(),
            1 => list_lit,
            _ => one_lit,
        };
        let op3 = if matches!(l3, J::List(_)) && r.chance(1, 2) { Op::In } else { Op::Eq };
        let not3 = r.chance(1, 3);
        p.prules.push(rules::PRule { name: "twp".into(), params: vec!["tx".into(), "ty".into()], body: Body { lets: vec![], lines: vec![cmp(var("tx"), op3, not3, Some(rules::Rhs::Query(var("ty"))))] } });
        // the argument query may carry a step that leaves it unresolved (never the erring filter:
        // both sides of this pair evaluate the query in place)
        let kq3 = if shape <= 3 || shape == 6 { kq.clone() } else { kq_plain };
        // an (otherwise unused) file-level variable with the NAME of one of the parameters: the
        // parameter shadows it inside the callee, the twins must still agree (no new draw: the
        // choice follows `shape`)
        p.lets.push(Let { name: if shape % 2 == 1 { "ty".into() } else { "tx".into() }, val: Arg::Lit(J::Str("zz outer namesake".into())) });
        p.rules.push(rule("tw3_a".into(), vec![], vec![Line { alts: vec![Clause::Call { not: false, name: "twp".into(), args: vec![Arg::Query(kq3.clone()), Arg::Lit(l3.clone())], msg: None }] }]));
        p.rules.push(rule("tw3_b".into(), vec![], vec![cmp(kq3, op3, not3, Some(rules::Rhs::Lit(l3)))]));
        // (4) the emptiness test on a parameter whose argument is an empty selection (the filter
        // nothing passes): the result set is empty in the callee as it is in place
        if shape == 6 {
            let neg = r.chance(1, 2);
            p.prules.push(rules::PRule { name: "twe".into(), params: vec!["tx".into()], body: Body { lets: vec![], lines: vec![cmp(var("tx"), Op::Empty, neg, None)] } });
            p.rules.push(rule("tw4_a".into(), vec![], vec![Line { alts: vec![Clause::Call { not: false, name: "twe".into(), args: vec![Arg::Query(kq.clone())], msg: None }] }]));
            p.rules.push(rule("tw4_b".into(), vec![], vec![cmp(kq.clone(), Op::Empty, neg, None)]));
        }
    }
    // an inner variable that shadows an outer one and is defined THROUGH another outer variable
    // whose own definition uses the outer one (sx -> sy -> outer sx): legal, no cycle; which
    // reference forces `sy` first depends on the order of the rules
    if r.chance(1, 3) {
        let k = key(r);
        p.lets.push(Let { name: "sx".into(), val: Arg::Query(Query { some: false, parts: vec![Part::Key(k)] }) });
        p.lets.push(Let { name: "sy".into(), val: Arg::Query(Query { some: false, parts: vec![Part::Var("sx".into())] }) });
        let c1 = var_clause("sx", r);
        let c2 = var_clause("sy", r);
        let inner = Rule { name: "probe_shadow_chain".into(), when: vec![], body: Body { lets: vec![Let { name: "sx".into(), val: Arg::Query(Query { some: false, parts: vec![Part::Var("sy".into())] }) }], lines: vec![Line { alts: vec![c1] }] } };
        let outer = Rule { name: "probe_shadow_chain_outer".into(), when: vec![], body: Body { lets: vec![], lines: vec![Line { alts: vec![c2] }] } };
        if r.chance(1, 2) {
            p.rules.push(inner);
            p.rules.push(outer);
        } else {
            p.rules.push(outer);
            p.rules.push(inner);
        }
    }
    // (rarely) two function-valued variables defined in terms of each other: an evaluation error
    // whichever reference comes first - never a verdict that depends on the order
    if r.chance(1, 12) {
        let f = |v: &str| Arg::Func(Box::new(Func { name: "count".into(), args: vec![Arg::Query(Query { some: false, parts: vec![Part::Var(v.to_string())] })] }));
        p.lets.push(Let { name: "cya".into(), val: f("cyb") });
        p.lets.push(Let { name: "cyb".into(), val: f("cya") });
        let c = |v: &str, n: i64| Line { alts: vec![Clause::Cmp(Cmp { not: false, q: Query { some: false, parts: vec![Part::Var(v.to_string())] }, op: Op::Eq, opnot: false, rhs: Some(rules::Rhs::Lit(J::Int(n))), msg: None })] };
        p.rules.push(Rule { name: "probe_cycle".into(), when: vec![], body: Body { lets: vec![], lines: vec![c("cya", 1), c("cyb", 0)] } });
    }
    // a rule-level variable over a list with equal neighbouring values, referenced plainly and
    // through count(): every reference sees all four values
    if matches!(d, J::Map(kv) if kv.iter().any(|(k, _)| k == "dups")) && r.chance(1, 2) {
        let dq = |parts: Vec<Part>| Query { some: false, parts };
        let lets = vec![
            Let { name: "dv".into(), val: Arg::Query(dq(vec![Part::Key("dups".into()), Part::AllIdx])) },
            Let { name: "dc".into(), val: Arg::Func(Box::new(Func { name: "count".into(), args: vec![Arg::Query(dq(vec![Part::Var("dv".into())]))] })) },
        ];
        let mut lines = vec![
            Line { alts: vec![Clause::Cmp(Cmp { not: false, q: dq(vec![Part::Var("dv".into())]), op: Op::Exists, opnot: false, rhs: None, msg: None })] },
            Line { alts: vec![Clause::Cmp(Cmp { not: false, q: dq(vec![Part::Var("dc".into())]), op: Op::Eq, opnot: false, rhs: Some(rules::Rhs::Lit(J::Int(4))), msg: None })] },
        ];
        if r.chance(1, 2) {
            lines.swap(0, 1);
        }
        p.rules.push(Rule { name: "probe_dups".into(), when: vec![], body: Body { lets, lines } });
    }
    // two rules of one name (legal), each with its own rule-level variable of the same
    // name bound to something else; no rule refers to them by name
    if r.chance(1, 3) {
        let k = key(r);
        let a = Arg::Query(Query { some: false, parts: vec![Part::Key(k.clone())] });
        let b = if r.chance(1, 2) { Arg::Query(Query { some: false, parts: vec![Part::Key(k.clone()), Part::Key("zz_inner".into())] }) } else { Arg::Func(Box::new(Func { name: "count".into(), args: vec![Arg::Query(Query { some: false, parts: vec![Part::Key(k)] })] })) };
        let mk = |val: Arg, r: &mut Rng| {
            let mut lines = vec![Line { alts: vec![Clause::Cmp(Cmp { not: false, q: Query { some: false, parts: vec![Part::Var("tv".into())] }, op: Op::Exists, opnot: false, rhs: None, msg: None })] }];
            if r.chance(1, 2) {
                lines.push(Line { alts: vec![var_clause("tv", r)] });
            }
            Rule { name: "twin".into(), when: vec![], body: Body { lets: vec![Let { name: "tv".into(), val }], lines } }
        };
        let (first, second) = if r.chance(1, 2) { (a, b) } else { (b, a) };
        let r1 = mk(first, r);
        let r2 = mk(second, r);
        let at = r.usize(p.rules.len() + 1);
        p.rules.insert(at, r1);
        p.rules.push(r2);
    }
}

impl Check for C15 {
    fn id(&self) -> &'static str {
        "C15"
    }
    fn level(&self) -> &'static str {
        "exploration"
    }
    fn scenarios(&self, tier: Tier) -> u64 {
        match tier {
            Tier::Quick => 500,
            Tier::Thorough => 15000,
        }
    }
    fn rule_text(&self) -> String {
        "scenario n = a generated rules file whose let variables (query- and function-valued, at file, rule and block scope) are each referenced at least twice from different rules, clauses and block iterations, plus 0-2 unused variables (some of whose definitions would raise an error if evaluated), x one document. Schedule (guard_verif hooks): every variable-memo lookup forced to miss with probability p in {0, 1/4, 1/2, 1}; every scope resolves its declared variables eagerly in a seeded order with probability q in {0, 1/2, 1}; the issue order of the referencing clauses and rules is permuted as in C04. Oracle: per-rule statuses, file status and exit code equal those of the undisturbed run, whenever neither run raised an evaluation error. distinct_nontrivial = distinct (transformation, p, q, outcome) tuples plus distinct rule-status vectors".into()
    }
    fn assumptions(&self) -> Vec<String> {
        vec![
            "only the history part of C15 is decided: every reference sees the same value, independence from which reference forces the lazy evaluation first, lazy vs eager resolution of (possibly unused) variables. NOT decided: %v == textual substitution, scoping/shadowing, parameterised-rule equivalence (program transformations with no schedule in them)".into(),
            "key-capture variables are excluded from the generated fragment; the simulated clock is frozen".into(),
            "needs the guard_verif hooks in /repo".into(),
        ]
    }
    fn required_reach(&self, tier: Tier) -> Vec<(&'static str, u64)> {
        let mut v = vec![("compared", 1), ("memo.var_forced_miss", 1), ("memo.eager", 1)];
        if tier == Tier::Thorough {
            v.push(("gen.unused_vars", 1));
        }
        v
    }

    fn run_scenario(&self, w: &mut Work, base_seed: u64, n: u64, tier: Tier) -> Report {
        let mut rep = Report::new(n);
        let seed = derive(base_seed, "C15", n);
        let mut r = Rng::stream(seed, "workload");
        let mut d = doc::gen_doc(&mut r);
        if r.chance(2, 3) {
            add_recs(&mut r, &mut d);
        }
        if r.chance(1, 2) {
            // a list with numbers in it (some clauses err on numbers rather than fail)
            if let J::Map(kv) = &mut d {
                kv.push(("nums".into(), J::List(vec![J::Int(1), J::Str("x".into()), J::Int(2)])));
                // equal neighbouring values: a result set is a list, not a set
                kv.push(("dups".into(), J::List(vec![J::Int(7), J::Int(7), J::Int(8), J::Int(8)])));
            }
        }
        let o = GenOpts { captures: false, functions: true, allow_now: false, default_clauses: false, max_rules: 4, prules: false, ..Default::default() };
        let mut p = rules::gen_prog(&mut r, &d, &o);
        make_var_heavy(&mut r, &mut p, &d);
        if p.print().contains("unused") {
            rep.count("gen.unused_vars", 1);
        }
        if !p.prules.is_empty() {
            rep.count("gen.parameterised_rule_calls", 1);
        }
        if p.print().contains("let twq = nums[ this") {
            rep.count("gen.twin_query_that_errs", 1);
        }
        if p.rules.iter().filter(|x| x.name == "twin").count() == 2 {
            rep.count("gen.same_name_rules_own_variable", 1);
        }
        let mut files = vec![
            FileSpec { rel: "data/d0.json".into(), bytes: doc::render(&d, DocFmt::JsonPretty).into_bytes(), mtime_ns: 0 },
            FileSpec { rel: "rules/v0.guard".into(), bytes: p.print().into_bytes(), mtime_ns: 0 },
        ];
        let nvar = match tier {
            Tier::Quick => 4,
            Tier::Thorough => 10,
        };
        let mut variants = vec![Variant { text: p.print(), dups: vec![], what: "identity".into(), disjuncts_permuted: false }];
        for _ in 0..nvar {
            variants.push(transform(&mut r, &p));
        }
        // the declarations nobody refers to are never forced by the lazy evaluator: a program
        // in which they are simply not issued must give the same verdicts (and no error either)
        {
            let mut q = p.clone();
            q.lets.retain(|l| !l.name.starts_with("unused"));
            for rule in q.rules.iter_mut() {
                rule.body.lets.retain(|l| !l.name.starts_with("unused"));
            }
            if q != p {
                variants.push(Variant { text: q.print(), dups: vec![], what: "unused declarations not issued".into(), disjuncts_permuted: false });
            }
        }
        // the substitution twins, one side at a time: an evaluation error on one side only is a
        // difference too (a run that errs reports no statuses, so the in-program comparison
        // cannot see it)
        if p.rules.iter().any(|x| x.name == "tw1_a") {
            for (suffix, what) in [("_b", "twins: abstraction side only"), ("_a", "twins: in-place side only")] {
                let mut q = p.clone();
                q.rules.retain(|x| !(x.name.starts_with("tw") && x.name.ends_with(suffix)));
                variants.push(Variant { text: q.print(), dups: vec![], what: what.into(), disjuncts_permuted: false });
            }
        }
        let mut rels = Vec::new();
        for (i, v) in variants.iter().enumerate() {
            let rel = format!("rules/v{}.guard", i + 1);
            files.push(FileSpec { rel: rel.clone(), bytes: v.text.clone().into_bytes(), mtime_ns: 0 });
            rels.push(rel);
        }
        w.materialise(&files);
        let (base, _) = run_variants(w, &["rules/v0.guard".to_string()], None, &mut rep);
        rep.count(&format!("base.{}", base[0].class.replace(':', "_")), 1);
        if let Some((m, _)) = &base[0].st {
            let mut vec: Vec<String> = m.values().cloned().collect();
            vec.sort();
            rep.classes.push(format!("statuses|{}", vec.join("")));
        }
        let schedule: &[(u16, u16)] = &[(0, 0), (64, 0), (256, 0), (0, 256), (128, 128), (256, 256), (0, 128)];
        let mut done: Vec<String> = Vec::new();
        for (si, (pm, qe)) in schedule.iter().enumerate() {
            let memo = if *pm == 0 && *qe == 0 { None } else { Some(MemoSpec { seed: derive(seed, "memo", si as u64), rule_miss: 0, var_miss: *pm, eager: *qe }) };
            let (outs, _fin) = run_variants(w, &rels, memo.clone(), &mut rep);
            for (i, o) in outs.iter().enumerate() {
                rep.classes.push(format!("{}|p{}|q{}|{}", variants[i].what, pm, qe, o.class));
                let sym = !variants[i].disjuncts_permuted && *qe == 0;
                if let Some(diff) = compare(&base[0], o, &variants[i].dups, sym, &mut rep) {
                    let kind = if *pm == 0 && *qe == 0 { "order" } else if *qe == 0 { "var-memo" } else if *pm == 0 { "eager" } else { "var-memo+eager" };
                    let sig = sig_of(&diff, kind);
                    if done.contains(&sig) {
                        continue;
                    }
                    done.push(sig.clone());
                    let mut crep = Report::default();
                    let (b2, _) = run_variants(w, &["rules/v0.guard".to_string()], None, &mut crep);
                    let (o2, _) = run_variants(w, &[rels[i].clone()], memo.clone(), &mut crep);
                    rep.execs += crep.execs;
                    let again = compare(&b2[0], &o2[0], &variants[i].dups, sym, &mut crep);
                    if again.as_ref().map(|d| sig_of(d, kind)) != Some(sig.clone()) {
                        rep.count("harness.unconfirmed_findings", 1);
                        continue;
                    }
                    let keep: Vec<FileSpec> = files.iter().filter(|f| f.rel == "data/d0.json" || f.rel == "rules/v0.guard" || f.rel == rels[i]).cloned().collect();
                    rep.violations.push(Violation {
                        signature: sig,
                        what: format!("verdict changed [{}; variable-memo forced-miss p={}/256, eager q={}/256]: {}", variants[i].what, pm, qe, diff),
                        replay: scn_json(&keep, &rels[i], &variants[i].dups, &memo, sym),
                        shrink_execs: 0,
                        minimised: true,
                    });
                }
            }
        }
        if n < 3 || std::env::var_os("GSIM_SAMPLE_ALL").is_some() {
            rep.sample = Some(json!({"rules_identity": p.print().chars().take(if n < 3 { 900 } else { 100_000 }).collect::<String>(), "variants": variants.iter().map(|v| v.what.clone()).collect::<Vec<_>>(), "base": base[0].class}));
        }
        rep
    }

    fn replay(&self, w: &mut Work, v: &Value) -> Vec<Violation> {
        let mut out = replay_generic(w, v);
        let (pm, qe) = v.get("memo").map(|m| (m.get("var_miss").and_then(|x| x.as_u64()).unwrap_or(0), m.get("eager").and_then(|x| x.as_u64()).unwrap_or(0))).unwrap_or((0, 0));
        let kind = if pm == 0 && qe == 0 { "order" } else if qe == 0 { "var-memo" } else if pm == 0 { "eager" } else { "var-memo+eager" };
        for x in out.iter_mut() {
            x.signature = sig_of(&x.what, kind);
        }
        out
    }
}

#[allow(dead_code)]
fn _unused(_r: &Rule) {}
