//! Worker pool, per-scenario reports, aggregation, known findings, evidence files.

use crate::exec::Work;
use serde::{Deserialize, Serialize};
use serde_json::{json, Value};
use std::collections::{BTreeMap, BTreeSet};
use std::io::{BufRead, BufReader, Write};
use std::os::unix::io::FromRawFd;
use std::path::{Path, PathBuf};
use std::time::Instant;

pub const DEFAULT_SEED: u64 = 20260926;

#[derive(Clone, Copy, Debug, PartialEq, Eq)]
pub enum Tier {
    Quick,
    Thorough,
}
impl Tier {
    pub fn name(self) -> &'static str {
        match self {
            Tier::Quick => "quick",
            Tier::Thorough => "thorough",
        }
    }
}

#[derive(Clone, Debug, Serialize, Deserialize, Default)]
pub struct Violation {
    /// stable class of the violation; known findings are keyed by this
    pub signature: String,
    /// human-readable one-liner
    pub what: String,
    /// materialised minimal scenario; `guardsim replay` re-executes it
    pub replay: Value,
    #[serde(default)]
    pub shrink_execs: u64,
    #[serde(default)]
    pub minimised: bool,
}

#[derive(Clone, Debug, Serialize, Deserialize, Default)]
pub struct Report {
    pub n: u64,
    pub execs: u64,
    pub violations: Vec<Violation>,
    /// reach probes and generator-validity counters (summed)
    pub counters: BTreeMap<String, u64>,
    /// distinct seam traces (interleavings of seam events) seen
    pub traces: Vec<u64>,
    /// distinct outcome classes / non-trivial case keys seen
    pub classes: Vec<String>,
    pub sim_ns: u64,
    #[serde(default)]
    pub sample: Option<Value>,
    #[serde(default)]
    pub harness_error: Option<String>,
}

impl Report {
    pub fn new(n: u64) -> Report {
        Report { n, ..Default::default() }
    }
    pub fn count(&mut self, k: &str, v: u64) {
        if v > 0 {
            *self.counters.entry(k.to_string()).or_default() += v;
        }
    }
    pub fn absorb_exec(&mut self, out: &crate::proto::ExecOut) {
        self.execs += 1;
        self.count("commands_run", out.steps.len() as u64);
        if out.end == "stalled" {
            // the host did not schedule the child for 9x its wall-clock budget: nothing
            // observed in this scenario can be trusted
            self.harness_error = Some("host stalled: a child did not finish within 9x its wall-clock budget without using its CPU budget".into());
        }
        if let Some(f) = &out.fin {
            self.traces.push(f.trace);
            self.sim_ns += f.mono_advance_ns;
            let names = ["clean", "short", "eintr", "eio", "eof", "enoent", "eacces", "emfile"];
            for (i, c) in f.fired.iter().enumerate() {
                if *c > 0 && i < names.len() {
                    self.count(&format!("fault_fired.{}", names[i]), *c);
                }
            }
            self.count("seam.reads", f.reads);
            self.count("seam.writes", f.writes);
            self.count("seam.opens", f.opens);
            self.count("seam.getrandom", f.getrandoms);
            self.count("seam.clock", f.clock_calls);
            self.count("seam.dir_scans", f.dir_scans);
            self.count("reach.short_read_split_utf8", f.short_read_split_utf8);
            self.count("reach.short_write_split_utf8", f.short_write_split_utf8);
            self.count("reach.clock_backward_jumps", f.real_backward_jumps);
            self.count("memo.rule_lookups", f.memo_rule_lookups);
            self.count("memo.rule_forced_miss", f.memo_rule_forced);
            self.count("memo.var_lookups", f.memo_var_lookups);
            self.count("memo.var_forced_miss", f.memo_var_forced);
            self.count("memo.eager", f.memo_eager);
        }
    }
}

pub trait Check: Sync {
    fn id(&self) -> &'static str;
    fn level(&self) -> &'static str;
    fn scenarios(&self, tier: Tier) -> u64;
    fn rule_text(&self) -> String;
    fn assumptions(&self) -> Vec<String>;
    fn real_vs_stub(&self) -> Value {
        json!({
            "real": ["cfn_guard library built from /repo working tree (clap parsing, all commands via Executable::execute, run_checks, parser, evaluator, loaders, reporters)", "std::fs / std::io / walkdir / chrono", "kernel tmpfs"],
            "simulated": ["getrandom (hash seeds)", "clock_gettime (monotonic + realtime)", "readdir64 order", "open64/read/write outcomes on scenario descriptors", "file mtimes", "environment variables and cwd", "heap layout perturbation (ASLR off)", "process start (fresh exec per execution)"],
            "stub": ["main.rs (12 lines emulated: Ok(code) -> exit(code), Err -> 'Error occurred', 255)", "completions command, Lambda runtime and FFI shim not run"]
        })
    }
    /// required reach probes: (counter name, minimum) — thorough tier exits 2 if not met
    fn required_reach(&self, _tier: Tier) -> Vec<(&'static str, u64)> {
        vec![]
    }
    fn run_scenario(&self, w: &mut Work, base_seed: u64, n: u64, tier: Tier) -> Report;
    /// re-execute a materialised scenario from a replay file; returns the violations seen
    fn replay(&self, w: &mut Work, scenario: &Value) -> Vec<Violation>;
}

#[derive(Clone, Debug, Deserialize, Default)]
pub struct KnownFinding {
    pub property: String,
    pub signature: String,
    pub what: String,
}
#[derive(Clone, Debug, Deserialize, Default)]
pub struct KnownFile {
    #[serde(default)]
    pub findings: Vec<KnownFinding>,
    #[serde(default)]
    pub fixed: Vec<String>,
}

pub fn load_known(verif: &Path) -> KnownFile {
    match std::fs::read(verif.join("known_findings.json")) {
        Ok(b) => serde_json::from_slice(&b).unwrap_or_default(),
        Err(_) => KnownFile::default(),
    }
}

pub struct RunCfg {
    pub verif: PathBuf,
    pub tier: Tier,
    pub seed: u64,
    pub workers: usize,
    pub scenarios: Option<u64>,
    pub write_evidence: bool,
    /// run only this scenario index (debugging)
    pub only: Option<u64>,
}

pub fn scratch_dir() -> PathBuf {
    PathBuf::from(format!("/dev/shm/gsim-{:08x}", std::process::id()))
}

/// Fork `workers` worker processes, statically partition scenario indices (n mod W), collect reports.
pub fn pool(check: &dyn Check, cfg: &RunCfg, total: u64, scratch: &Path) -> (Vec<Report>, Vec<String>, u64, u64) {
    let mut harness_errors: Vec<String> = Vec::new();
    let mut reports: Vec<Report> = Vec::new();
    let mut total_execs = 0u64;
    let mut not_run = 0u64;
    let mut readers = Vec::new();
    let mut pids = Vec::new();
    for wi in 0..cfg.workers {
        let mut fds = [0i32; 2];
        unsafe {
            if libc::pipe(fds.as_mut_ptr()) != 0 {
                harness_errors.push("pipe failed".into());
                return (reports, harness_errors, 0, 0);
            }
        }
        let pid = unsafe { libc::fork() };
        if pid < 0 {
            harness_errors.push("fork failed".into());
            return (reports, harness_errors, 0, 0);
        }
        if pid == 0 {
            unsafe {
                libc::close(fds[0]);
            }
            let mut out = unsafe { std::fs::File::from_raw_fd(fds[1]) };
            let mut w = Work::new(scratch, wi);
            let mut n = wi as u64;
            // Bounded time on a broken tree: once some worker has reported a violation AND
            // the run has used its wall-clock allowance, nobody starts another scenario
            // (a tree that hangs makes every affected execution cost a whole CPU budget).
            // Never triggers on a tree without violations.
            let started = Instant::now();
            let allowance = std::time::Duration::from_secs(match cfg.tier {
                Tier::Quick => 150,
                Tier::Thorough => 1500,
            });
            let stop_flag = scratch.join("stop-after-violation");
            let mut found_any = false;
            let mut not_run = 0u64;
            while n < total {
                if let Some(o) = cfg.only {
                    if n != o {
                        n += cfg.workers as u64;
                        continue;
                    }
                }
                if started.elapsed() > allowance {
                    if found_any && !stop_flag.exists() {
                        let _ = std::fs::write(&stop_flag, b"1");
                    }
                    if stop_flag.exists() {
                        not_run += 1;
                        n += cfg.workers as u64;
                        continue;
                    }
                }
                let rep = check.run_scenario(&mut w, cfg.seed, n, cfg.tier);
                found_any |= !rep.violations.is_empty();
                let mut line = serde_json::to_vec(&rep).unwrap_or_default();
                line.push(b'\n');
                if out.write_all(&line).is_err() {
                    break;
                }
                n += cfg.workers as u64;
            }
            let fin = json!({"worker_done": wi, "execs": w.execs, "exec_wall_ms": w.exec_wall.as_millis() as u64, "stall_retries": w.stall_retries, "not_run": not_run, "hangs_full_budget": w.hangs_full_budget, "hangs_short_budget": w.hangs_short_budget});
            let _ = out.write_all(format!("{}\n", fin).as_bytes());
            drop(w);
            unsafe { libc::_exit(0) };
        }
        unsafe { libc::close(fds[1]) };
        readers.push((fds[0], wi));
        pids.push(pid);
    }
    let (tx, rx) = std::sync::mpsc::channel::<Result<Value, String>>();
    let mut handles = Vec::new();
    for (fd, wi) in readers {
        let tx = tx.clone();
        handles.push(std::thread::spawn(move || {
            let f = unsafe { std::fs::File::from_raw_fd(fd) };
            let rd = BufReader::new(f);
            let mut done = false;
            for line in rd.lines() {
                match line {
                    Ok(l) => match serde_json::from_str::<Value>(&l) {
                        Ok(v) => {
                            if v.get("worker_done").is_some() {
                                done = true;
                            }
                            let _ = tx.send(Ok(v));
                        }
                        Err(e) => {
                            let _ = tx.send(Err(format!("worker {wi}: bad line: {e}")));
                        }
                    },
                    Err(e) => {
                        let _ = tx.send(Err(format!("worker {wi}: read: {e}")));
                    }
                }
            }
            if !done {
                let _ = tx.send(Err(format!("worker {wi} ended without completing its share")));
            }
        }));
    }
    drop(tx);
    for msg in rx {
        match msg {
            Err(e) => harness_errors.push(e),
            Ok(v) => {
                if v.get("worker_done").is_some() {
                    total_execs += v.get("execs").and_then(|x| x.as_u64()).unwrap_or(0);
                    not_run += v.get("not_run").and_then(|x| x.as_u64()).unwrap_or(0);
                    continue;
                }
                match serde_json::from_value::<Report>(v) {
                    Ok(rep) => reports.push(rep),
                    Err(e) => harness_errors.push(format!("bad report: {e}")),
                }
            }
        }
    }
    for h in handles {
        let _ = h.join();
    }
    for pid in pids {
        let mut st = 0;
        unsafe { libc::waitpid(pid, &mut st, 0) };
    }
    reports.sort_by_key(|r| r.n);
    (reports, harness_errors, total_execs, not_run)
}

/// Runs a check over its scenario set on `workers` forked worker processes.
/// Returns the process exit code (0 held / 1 violation / 2 harness error).
pub fn run_check(check: &dyn Check, cfg: &RunCfg) -> i32 {
    let t0 = Instant::now();
    let total = cfg.scenarios.unwrap_or_else(|| check.scenarios(cfg.tier));
    let scratch = scratch_dir();
    let _ = std::fs::remove_dir_all(&scratch);
    if std::fs::create_dir_all(&scratch).is_err() {
        eprintln!("guardsim: scratch {} not writable", scratch.display());
        return 2;
    }
    println!("guardsim: property={} tier={} VERIF_SEED={} scenarios={} workers={}", check.id(), cfg.tier.name(), cfg.seed, total, cfg.workers);
    let (reports, mut harness_errors, total_execs, not_run) = pool(check, cfg, total, &scratch);
    let _ = std::fs::remove_dir_all(&scratch);

    let mut agg = Report::default();
    let mut traces: BTreeSet<u64> = BTreeSet::new();
    let mut classes: BTreeSet<String> = BTreeSet::new();
    let mut samples: Vec<(u64, Value)> = Vec::new();
    let mut done_scen = 0u64;
    let mut viol: Vec<(u64, Violation)> = Vec::new();
    for rep in reports {
        done_scen += 1;
        agg.execs += rep.execs;
        agg.sim_ns += rep.sim_ns;
        for (k, c) in rep.counters {
            *agg.counters.entry(k).or_default() += c;
        }
        traces.extend(rep.traces);
        classes.extend(rep.classes);
        if let Some(s) = rep.sample {
            if samples.len() < 64 {
                samples.push((rep.n, s));
            }
        }
        if let Some(h) = rep.harness_error {
            // violations of a scenario with a harness error are not believed
            harness_errors.push(format!("scenario {}: {}", rep.n, h));
            continue;
        }
        for v in rep.violations {
            viol.push((rep.n, v));
        }
    }
    let wall = t0.elapsed().as_secs_f64();

    // violations: group by signature, deterministic choice (lowest scenario index)
    // per signature: prefer a minimised instance, then the lowest scenario index
    viol.sort_by(|a, b| (a.1.signature.as_str(), !a.1.minimised, a.0).cmp(&(b.1.signature.as_str(), !b.1.minimised, b.0)));
    let known = load_known(&cfg.verif);
    let mut by_sig: BTreeMap<String, (u64, Violation, u64)> = BTreeMap::new();
    for (n, v) in viol {
        by_sig.entry(v.signature.clone()).and_modify(|e| e.2 += 1).or_insert((n, v, 1));
    }
    let mut new_violations = 0;
    let mut known_hits = 0;
    let replays = cfg.verif.join("replays");
    let _ = std::fs::create_dir_all(&replays);
    let mut viol_summ = Vec::new();
    for (sig, (n, v, cnt)) in &by_sig {
        let is_known = known.findings.iter().any(|k| k.property == check.id() && k.signature == *sig);
        if is_known {
            known_hits += 1;
            println!("KNOWN-FINDING: property={} {} [{}] (seen in {} scenarios, first n={})", check.id(), v.what, sig, cnt, n);
        } else {
            new_violations += 1;
            let fname = format!("{}-{}-{:016x}.json", check.id(), cfg.seed, crate::prng::fnv(sig.as_bytes()));
            let path = replays.join(&fname);
            let doc = json!({
                "property": check.id(),
                "seed": cfg.seed,
                "scenario_index": n,
                "signature": sig,
                "what": v.what,
                "shrink_execs": v.shrink_execs,
                "scenario": v.replay,
            });
            let _ = std::fs::write(&path, serde_json::to_vec_pretty(&doc).unwrap_or_default());
            println!("VIOLATION property={} replay={}", check.id(), path.display());
            println!("  what: {} [{}] (seen in {} scenarios, first n={})", v.what, sig, cnt, n);
        }
        viol_summ.push(json!({"signature": sig, "what": v.what, "scenarios": cnt, "known": is_known}));
    }

    // generator validity / reach requirements
    let mut weak: Vec<String> = Vec::new();
    for (k, min) in check.required_reach(cfg.tier) {
        let got = agg.counters.get(k).copied().unwrap_or(0);
        if got < min {
            weak.push(format!("{k}={got} < {min}"));
        }
    }
    if done_scen + not_run != total {
        harness_errors.push(format!("only {done_scen} of {total} scenarios reported"));
    }
    if not_run > 0 {
        println!("guardsim: exploration stopped after its wall-clock allowance with violations in hand: {not_run} of {total} scenarios not run");
        // the reach requirements are stated for a complete run
        weak.clear();
    }

    if cfg.write_evidence {
        let sample_vals: Vec<Value> = {
            samples.sort_by_key(|s| s.0);
            samples.into_iter().take(6).map(|(n, s)| json!({"scenario": n, "case": s})).collect()
        };
        let mut fired = serde_json::Map::new();
        let mut reach = serde_json::Map::new();
        let mut other = serde_json::Map::new();
        for (k, c) in &agg.counters {
            if let Some(f) = k.strip_prefix("fault_fired.") {
                fired.insert(f.to_string(), json!(c));
            } else if let Some(f) = k.strip_prefix("reach.") {
                reach.insert(f.to_string(), json!(c));
            } else {
                other.insert(k.clone(), json!(c));
            }
        }
        let ev = json!({
            "property_id": check.id(),
            "tier": cfg.tier.name(),
            "seed": cfg.seed,
            "level": check.level(),
            "coverage": {
                "evaluations": agg.execs,
                "distinct_nontrivial": classes.len(),
                "rule": check.rule_text(),
                "samples": if sample_vals.is_empty() { vec![json!("no sample recorded")] } else { sample_vals },
                "scenarios": done_scen,
                "scenarios_not_run_after_violation": not_run,
                "commands_run": agg.counters.get("commands_run").copied().unwrap_or(0),
                "simulated_runs_per_hour": if wall > 0.0 { (agg.execs as f64 / wall * 3600.0) as u64 } else { 0 },
                "seeds_per_hour": if wall > 0.0 { (done_scen as f64 / wall * 3600.0) as u64 } else { 0 },
                "simulated_time_s": agg.sim_ns as f64 / 1e9,
                "faults_fired": Value::Object(fired),
                "reach_probes": Value::Object(reach),
                "counters": Value::Object(other),
                "distinct_seam_traces": traces.len(),
                "components": check.real_vs_stub(),
                "violation_classes": viol_summ,
                "workload_too_weak": weak,
                "exhaustive": false
            },
            "assumptions": check.assumptions(),
            "wall_s": wall,
            "violations": new_violations,
            "known_findings_met": known_hits,
        });
        let evdir = cfg.verif.join("evidence");
        let _ = std::fs::create_dir_all(&evdir);
        let p = evdir.join(format!("{}.json", check.id()));
        let tmp = evdir.join(format!("{}.json.tmp", check.id()));
        if std::fs::write(&tmp, serde_json::to_vec_pretty(&ev).unwrap_or_default()).is_ok() {
            let _ = std::fs::rename(&tmp, &p);
        }
    }
    println!(
        "guardsim: property={} scenarios={} executions={} ({} child processes) distinct_traces={} distinct_classes={} wall={:.1}s violations={} known={}",
        check.id(),
        done_scen,
        agg.execs,
        total_execs,
        traces.len(),
        classes.len(),
        wall,
        new_violations,
        known_hits
    );
    if !harness_errors.is_empty() {
        for h in harness_errors.iter().take(10) {
            eprintln!("guardsim: HARNESS ERROR: {h}");
        }
        return 2;
    }
    if new_violations > 0 {
        return 1;
    }
    if !weak.is_empty() {
        eprintln!("guardsim: workload too weak: {}", weak.join(", "));
        return 2;
    }
    0
}

/// Replay a file written by `run_check`. Exit 1 iff the recorded signature recurs.
pub fn run_replay(checks: &[&dyn Check], file: &Path) -> i32 {
    let doc: Value = match std::fs::read(file).ok().and_then(|b| serde_json::from_slice(&b).ok()) {
        Some(v) => v,
        None => {
            eprintln!("guardsim: cannot read replay file {}", file.display());
            return 2;
        }
    };
    let prop = doc.get("property").and_then(|x| x.as_str()).unwrap_or("");
    let sig = doc.get("signature").and_then(|x| x.as_str()).unwrap_or("");
    let check = match checks.iter().find(|c| c.id() == prop) {
        Some(c) => *c,
        None => {
            eprintln!("guardsim: unknown property {prop}");
            return 2;
        }
    };
    let scratch = scratch_dir();
    let _ = std::fs::remove_dir_all(&scratch);
    let _ = std::fs::create_dir_all(&scratch);
    let mut w = Work::new(&scratch, 0);
    let vs = check.replay(&mut w, doc.get("scenario").unwrap_or(&Value::Null));
    drop(w);
    if std::env::var_os("GSIM_KEEP").is_some() {
        // debugging aid: leave the last execution's files (root/, res/: s<i>.out, s<i>.err, meta.jsonl)
        eprintln!("replay: scratch kept at {}", scratch.display());
    } else {
        let _ = std::fs::remove_dir_all(&scratch);
    }
    let mut hit = false;
    for v in &vs {
        println!("replay: violation [{}] {}", v.signature, v.what);
        if v.signature == sig {
            hit = true;
        }
    }
    if hit {
        println!("VIOLATION property={} replay={}", prop, file.display());
        1
    } else {
        println!("replay: recorded signature [{sig}] did not recur ({} other violations)", vs.len());
        0
    }
}
