//! Worker-side: materialise scenario files, launch the one-shot child, collect results.

use crate::proto::*;
use std::ffi::CString;
use std::io::Write;
use std::os::unix::process::ExitStatusExt;
use std::path::{Path, PathBuf};
use std::process::{Command, Stdio};
use std::time::{Duration, Instant};

#[derive(Clone, Debug, PartialEq)]
pub struct FileSpec {
    /// path relative to the scenario root; `"a/link -> ../b/target"` makes `a/link` a symbolic
    /// link with that target (bytes and mtime are ignored)
    pub rel: String,
    pub bytes: Vec<u8>,
    /// modification time in ns since the epoch (0 = whatever the kernel says)
    pub mtime_ns: i64,
}

pub struct Work {
    pub base: PathBuf,
    pub root: String,
    pub res: String,
    pub req_path: String,
    exe: PathBuf,
    pub timeout: Duration,
    pub execs: u64,
    pub exec_wall: Duration,
    pub stall_retries: u64,
    /// violation classes this worker has already minimised (later ones are reported unminimised)
    pub seen: std::collections::BTreeSet<String>,
    /// executions that spun until the full CPU budget (genuine hangs) seen by this worker
    pub hangs_full_budget: u64,
    /// executions classified as hangs at the short budget (only after `hangs_full_budget` >= 2)
    pub hangs_short_budget: u64,
    /// decide every hang at the full budget (set while a candidate violation is confirmed)
    pub full_cpu_budget: bool,
    /// use the short budget regardless (while a hang is being minimised)
    pub short_cpu_budget: bool,
}

pub fn rm_rf(p: &Path) {
    let _ = std::fs::remove_dir_all(p);
}

fn sigchld_set() -> libc::sigset_t {
    unsafe {
        let mut set: libc::sigset_t = std::mem::zeroed();
        libc::sigemptyset(&mut set);
        libc::sigaddset(&mut set, libc::SIGCHLD);
        set
    }
}

impl Work {
    /// `slot` must be unique per concurrently running worker of this process tree.
    pub fn new(scratch: &Path, slot: usize) -> Work {
        let base = scratch.join(format!("w{:02}", slot));
        rm_rf(&base);
        std::fs::create_dir_all(base.join("root")).expect("scratch not writable");
        std::fs::create_dir_all(base.join("res")).expect("scratch not writable");
        // block SIGCHLD so that sigtimedwait can be used as a sleeping wait with timeout
        unsafe {
            let set = sigchld_set();
            libc::sigprocmask(libc::SIG_BLOCK, &set, std::ptr::null_mut());
        }
        Work {
            root: format!("{}/root/", base.display()),
            res: format!("{}/res", base.display()),
            req_path: format!("{}/req.json", base.display()),
            exe: std::env::current_exe().expect("current_exe"),
            base,
            timeout: Duration::from_secs(20),
            execs: 0,
            exec_wall: Duration::ZERO,
            stall_retries: 0,
            seen: Default::default(),
            hangs_full_budget: 0,
            hangs_short_budget: 0,
            full_cpu_budget: false,
            short_cpu_budget: false,
        }
    }

    pub fn abs(&self, rel: &str) -> String {
        format!("{}{}", self.root, rel)
    }

    /// Replace the scenario root's content by `files`.
    pub fn materialise(&self, files: &[FileSpec]) {
        let root = Path::new(&self.root);
        rm_rf(root);
        std::fs::create_dir_all(root).expect("mkdir root");
        std::fs::create_dir_all(root.join("out")).expect("mkdir out");
        for f in files {
            self.write_file(f);
        }
    }

    pub fn write_file(&self, f: &FileSpec) {
        if let Some((link, target)) = f.rel.split_once(" -> ") {
            let p = Path::new(&self.root).join(link);
            if let Some(d) = p.parent() {
                let _ = std::fs::create_dir_all(d);
            }
            let _ = std::fs::remove_file(&p);
            std::os::unix::fs::symlink(target, &p).expect("create scenario symlink");
            return;
        }
        let p = Path::new(&self.root).join(&f.rel);
        if let Some(d) = p.parent() {
            let _ = std::fs::create_dir_all(d);
        }
        let mut fh = std::fs::File::create(&p).expect("create scenario file");
        fh.write_all(&f.bytes).expect("write scenario file");
        drop(fh);
        if f.mtime_ns != 0 {
            set_mtime(&p, f.mtime_ns);
        }
    }

    pub fn remove_file(&self, rel: &str) {
        let _ = std::fs::remove_file(Path::new(&self.root).join(rel));
    }

    fn clear_outputs(&self) {
        let out = Path::new(&self.root).join("out");
        rm_rf(&out);
        let _ = std::fs::create_dir_all(&out);
        let res = Path::new(&self.res);
        rm_rf(res);
        let _ = std::fs::create_dir_all(res);
    }

    /// A request skeleton for this work area (calm environment, no steps).
    pub fn req(&self) -> ExecReq {
        ExecReq {
            root: self.root.clone(),
            res_dir: self.res.clone(),
            cwd: Some(self.root.clone()),
            env: calm_env(),
            sim: SimSpec::calm(),
            heap_seed: 0,
            memo: None,
            same_thread: false,
            cpu_limit_s: None,
            stale_out: false,
            steps: vec![],
        }
    }

    /// Run one simulated execution.
    ///
    /// Hangs are decided by CPU time, not wall time: the child limits itself with
    /// RLIMIT_CPU (10 s of CPU per command) and dies with SIGXCPU if it spins. The
    /// wall-clock watchdog is only a backstop for a stalled host: on a wall timeout the run
    /// is retried with 3x and then 9x the budget, and if it still does not finish the result
    /// is "stalled" — a harness condition (exit 2), never a property violation.
    ///
    /// A code base that really hangs would make every affected execution cost the whole CPU
    /// budget. Once this worker has seen two executions spin to the end of the FULL budget,
    /// later executions get a short budget (2 s of CPU per command instead of 10 s, still
    /// ~100x a normal command); one that exhausts it is classified as a hang without being run again. Every
    /// violation is confirmed with `full_cpu_budget` set before it is reported, so a reported
    /// hang has always exhausted the full budget.
    pub fn run(&mut self, req: &ExecReq) -> ExecOut {
        if req.cpu_limit_s.is_none() && !self.full_cpu_budget && (self.hangs_full_budget >= 2 || self.short_cpu_budget) {
            let mut short = req.clone();
            short.cpu_limit_s = Some(2);
            let out = self.run_inner(&short);
            if out.end == "signal:24" {
                self.hangs_short_budget += 1;
            }
            return out;
        }
        let out = self.run_inner(req);
        if out.end == "signal:24" {
            self.hangs_full_budget += 1;
        }
        out
    }

    fn run_inner(&mut self, req: &ExecReq) -> ExecOut {
        let budget = self.timeout + Duration::from_millis(250 * req.steps.len() as u64);
        let mut out = self.run_once(req, budget);
        let mut factor = 3;
        while out.end == "timeout" && factor <= 9 {
            self.stall_retries += 1;
            std::thread::sleep(Duration::from_millis(500));
            out = self.run_once(req, budget * factor);
            factor *= 3;
        }
        if out.end == "timeout" {
            out.end = "stalled".into();
        }
        out
    }

    fn run_once(&mut self, req: &ExecReq, budget: Duration) -> ExecOut {
        let t0 = Instant::now();
        self.clear_outputs();
        std::fs::write(&self.req_path, serde_json::to_vec(req).expect("ser req")).expect("write req");
        let mut child = Command::new(&self.exe)
            .arg("child")
            .arg(&self.req_path)
            .env_clear()
            .stdin(Stdio::null())
            .stdout(Stdio::null())
            .stderr(Stdio::null())
            .spawn()
            .expect("spawn child");
        let deadline = Instant::now() + budget;
        let mut end = String::new();
        loop {
            match child.try_wait() {
                Ok(Some(st)) => {
                    end = if let Some(sig) = st.signal() {
                        format!("signal:{sig}")
                    } else {
                        match st.code() {
                            Some(0) => "ok".to_string(),
                            Some(c) => format!("exit:{c}"),
                            None => "unknown".to_string(),
                        }
                    };
                    break;
                }
                Ok(None) => {}
                Err(_) => {
                    end = "waiterr".into();
                    break;
                }
            }
            let now = Instant::now();
            if now >= deadline {
                let _ = child.kill();
                let _ = child.wait();
                end = "timeout".into();
                break;
            }
            let rem = deadline - now;
            let ts = libc::timespec {
                tv_sec: core::cmp::min(rem.as_secs(), 1) as libc::time_t,
                tv_nsec: if rem.as_secs() >= 1 { 0 } else { rem.subsec_nanos() as libc::c_long },
            };
            unsafe {
                let set = sigchld_set();
                let mut info: libc::siginfo_t = std::mem::zeroed();
                libc::sigtimedwait(&set, &mut info, &ts);
            }
        }
        let out = self.collect(req, end);
        self.execs += 1;
        self.exec_wall += t0.elapsed();
        out
    }

    fn collect(&self, req: &ExecReq, end: String) -> ExecOut {
        let mut eo = ExecOut { end, ..Default::default() };
        let meta = std::fs::read(format!("{}/meta.jsonl", self.res)).unwrap_or_default();
        let mut started: Option<usize> = None;
        let mut done: Vec<StepRes> = Vec::new();
        for line in meta.split(|b| *b == b'\n') {
            if line.is_empty() {
                continue;
            }
            if let Ok(v) = serde_json::from_slice::<serde_json::Value>(line) {
                if let Some(s) = v.get("start").and_then(|x| x.as_u64()) {
                    started = Some(s as usize);
                } else if let Some(d) = v.get("done") {
                    if let Ok(r) = serde_json::from_value::<StepRes>(d.clone()) {
                        done.push(r);
                    }
                } else if let Some(f) = v.get("final") {
                    eo.fin = serde_json::from_value::<FinalRes>(f.clone()).ok();
                }
            }
        }
        if eo.end != "ok" || eo.fin.is_none() {
            if let Some(s) = started {
                if done.iter().all(|d| d.idx != s) {
                    eo.died_in = Some(s);
                }
            }
        }
        let n = core::cmp::max(done.len(), eo.died_in.map(|d| d + 1).unwrap_or(0));
        for i in 0..n {
            let res = done.iter().find(|d| d.idx == i).cloned().unwrap_or(StepRes {
                idx: i,
                outcome: "died".into(),
                code: -1,
                ..Default::default()
            });
            let stdout = std::fs::read(format!("{}/s{}.out", self.res, i)).unwrap_or_default();
            let stderr = std::fs::read(format!("{}/s{}.err", self.res, i)).unwrap_or_default();
            let outfile = req.steps.get(i).and_then(|s| s.out_path.as_ref()).and_then(|p| std::fs::read(p).ok());
            eo.steps.push(StepOut { res, stdout, stderr, outfile });
        }
        eo.child_stderr = std::fs::read(format!("{}/child.stderr", self.res)).unwrap_or_default();
        eo
    }
}

impl Drop for Work {
    fn drop(&mut self) {
        if std::env::var_os("GSIM_KEEP").is_none() {
            rm_rf(&self.base);
        }
    }
}

pub fn set_mtime(p: &Path, mtime_ns: i64) {
    let c = CString::new(p.to_str().unwrap()).unwrap();
    let ts = [
        libc::timespec { tv_sec: (mtime_ns / 1_000_000_000) as libc::time_t, tv_nsec: (mtime_ns % 1_000_000_000) as libc::c_long },
        libc::timespec { tv_sec: (mtime_ns / 1_000_000_000) as libc::time_t, tv_nsec: (mtime_ns % 1_000_000_000) as libc::c_long },
    ];
    unsafe {
        libc::utimensat(libc::AT_FDCWD, c.as_ptr(), ts.as_ptr(), 0);
    }
}

pub fn calm_env() -> Vec<(String, String)> {
    vec![
        ("PATH".into(), "/usr/bin:/bin".into()),
        ("HOME".into(), "/nonexistent".into()),
        ("LANG".into(), "C".into()),
        ("NO_COLOR".into(), "1".into()),
    ]
}
