//! C05 — determinism: same inputs, same bytes, same exit code, under every environment the
//! simulator can produce (hash entropy, clocks, env vars, cwd, readdir order, heap layout,
//! read/write chunking + EINTR, process history).

use crate::doc;
use crate::exec::{calm_env, FileSpec, Work};
use crate::framework::*;
use crate::prng::{derive, Rng};
use crate::proto::*;
use crate::rules;
use crate::workload::*;
use serde_json::{json, Value};
use std::collections::BTreeMap;

pub struct C05;

/// One perturbed environment + history.
#[derive(Clone, Debug, PartialEq)]
pub struct Pert {
    pub sim: SimSpec,
    pub env: Vec<(String, String)>,
    pub cwd: Option<String>,
    pub heap_seed: u64,
    /// indices into the scenario's steps, in execution order (with repetitions)
    pub order: Vec<usize>,
    /// run unrelated commands on other inputs first
    pub noise: bool,
    /// all commands on one thread (thread-local state survives), as in a long-lived host
    pub same_thread: bool,
    /// != 0: the files' modification times are dealt out afresh (only when no command of the
    /// scenario asks for `-m`, where they are input)
    pub mtime_seed: u64,
    /// a long stale file sits at every `-o` path before the commands run
    pub stale_out: bool,
}

#[derive(Clone, Debug)]
pub struct Scn {
    pub files: Vec<FileSpec>,
    pub steps: Vec<StepT>,
    pub uses_now: bool,
}

pub fn strip_ansi(b: &[u8]) -> Vec<u8> {
    let mut out = Vec::with_capacity(b.len());
    let mut i = 0;
    while i < b.len() {
        if b[i] == 0x1b && i + 1 < b.len() && b[i + 1] == b'[' {
            i += 2;
            while i < b.len() && !(0x40..=0x7e).contains(&b[i]) {
                i += 1;
            }
            i += 1;
        } else {
            out.push(b[i]);
            i += 1;
        }
    }
    out
}

pub fn blank_junit_time(b: &[u8]) -> Vec<u8> {
    let s = String::from_utf8_lossy(b).into_owned();
    let mut out = String::with_capacity(s.len());
    let mut rest = s.as_str();
    while let Some(p) = rest.find("time=\"") {
        out.push_str(&rest[..p + 6]);
        rest = &rest[p + 6..];
        match rest.find('"') {
            Some(q) => {
                out.push('T');
                rest = &rest[q..];
            }
            None => break,
        }
    }
    out.push_str(rest);
    out.into_bytes()
}

fn sorted_lines(b: &[u8]) -> Vec<Vec<u8>> {
    let s = strip_ansi(b);
    let mut v: Vec<Vec<u8>> = s.split(|c| *c == b'\n').map(|l| l.to_vec()).collect();
    v.sort();
    v
}

/// None if equal under `mode`; otherwise a short shape description of the first difference.
pub fn diff(mode: Mode, a: &[u8], b: &[u8]) -> Option<String> {
    match mode {
        Mode::Exact => {
            if a == b {
                None
            } else {
                Some(diff_shape(a, b))
            }
        }
        Mode::Junit => {
            let (x, y) = (blank_junit_time(a), blank_junit_time(b));
            if x == y {
                None
            } else {
                Some(diff_shape(&x, &y))
            }
        }
        Mode::Lines => {
            let (x, y) = (sorted_lines(a), sorted_lines(b));
            if x == y {
                None
            } else {
                // first line present in one but not the other
                let only: Option<&Vec<u8>> = x.iter().find(|l| !y.contains(l)).or_else(|| y.iter().find(|l| !x.contains(l)));
                Some(match only {
                    Some(l) => format!("line:{}", normalise_line(l)),
                    None => "line-multiplicity".to_string(),
                })
            }
        }
    }
}

fn normalise_line(l: &[u8]) -> String {
    let s = String::from_utf8_lossy(l);
    let mut out = String::new();
    let mut words = 0;
    let mut last_digit = false;
    for c in s.trim().chars() {
        if c.is_ascii_digit() {
            if !last_digit {
                out.push('N');
            }
            last_digit = true;
            continue;
        }
        last_digit = false;
        if c.is_whitespace() {
            words += 1;
            if words >= 4 {
                break;
            }
            out.push(' ');
        } else if c == '/' {
            // path — stop here, paths contain scratch directory names
            out.push('/');
            break;
        } else {
            out.push(c);
        }
    }
    out.chars().take(48).collect()
}

/// For JSON outputs: the generalised pointer of the first difference, else "bytes" / "reorder".
fn diff_shape(a: &[u8], b: &[u8]) -> String {
    if let (Ok(x), Ok(y)) = (serde_json::from_slice::<Value>(a), serde_json::from_slice::<Value>(b)) {
        if let Some(p) = json_diff(&x, &y, String::new()) {
            return format!("json:{p}");
        }
        return "json-formatting".into();
    }
    let (mut x, mut y): (Vec<&[u8]>, Vec<&[u8]>) = (a.split(|c| *c == b'\n').collect(), b.split(|c| *c == b'\n').collect());
    x.sort();
    y.sort();
    if x == y {
        "reorder".into()
    } else if a.len() != b.len() {
        "bytes-len".into()
    } else {
        "bytes".into()
    }
}

fn json_diff(a: &Value, b: &Value, path: String) -> Option<String> {
    match (a, b) {
        (Value::Object(x), Value::Object(y)) => {
            let kx: Vec<&String> = x.keys().collect();
            let ky: Vec<&String> = y.keys().collect();
            if kx != ky {
                return Some(format!("{path}{{keys}}"));
            }
            for (k, v) in x {
                if let Some(d) = json_diff(v, &y[k], format!("{path}/{k}")) {
                    return Some(d);
                }
            }
            None
        }
        (Value::Array(x), Value::Array(y)) => {
            if x.len() != y.len() {
                return Some(format!("{path}[len]"));
            }
            for (v, w) in x.iter().zip(y.iter()) {
                if let Some(d) = json_diff(v, w, format!("{path}/*")) {
                    return Some(d);
                }
            }
            None
        }
        (x, y) => {
            if x == y {
                None
            } else {
                Some(path)
            }
        }
    }
}

pub fn outcome_class(s: &StepOut) -> String {
    match s.res.outcome.as_str() {
        "exit" => format!("exit:{}", s.res.code),
        "err" => "err:255".into(),
        "panic" => format!("panic:{}", short_loc(&s.res.panic_loc)),
        "usage" => "usage".into(),
        other => other.to_string(),
    }
}

pub fn short_loc(loc: &str) -> String {
    // strip everything up to the crate-relative path
    if let Some(p) = loc.rfind("/src/") {
        let head = &loc[..p];
        let krate = head.rsplit('/').next().unwrap_or("");
        format!("{}{}", krate, &loc[p..])
    } else {
        loc.to_string()
    }
}

fn gen_pert(r: &mut Rng, nsteps: usize, uses_now: bool, with_m_flag: bool, dir_ok: bool, repeats: usize) -> Pert {
    let mut sim = SimSpec::calm();
    sim.entropy_seed = r.next();
    if !uses_now && r.chance(2, 3) {
        sim.clock_mode = "wild".into();
        sim.clock_seed = r.next();
        sim.real_base_s = *r.pick(&[0i64, 1, 86_399, 946_684_800, 1_234_567_890, 1_790_000_000, 2_147_483_647, 2_147_483_648, 4_102_444_800, 7_258_118_400]);
        sim.mono_base_s = *r.pick(&[0i64, 1, 1000, 86_400 * 365, 4_000_000_000]);
    }
    if dir_ok && r.chance(2, 3) {
        sim.dir_mode = (*r.pick(&["shuffle", "shuffle", "desc", "natural"])).to_string();
        sim.dir_seed = r.next();
    }
    if r.chance(1, 2) {
        let m = 1 + r.below(64) as u32;
        sim.faults = FaultSpec::Random {
            seed: r.next(),
            rates: RatesSpec {
                read_short: *r.pick(&[0u8, 32, 128, 220]),
                read_eintr: *r.pick(&[0u8, 8, 64]),
                write_short: *r.pick(&[0u8, 16, 96, 200]),
                write_eintr: *r.pick(&[0u8, 8, 64]),
                max_short: m,
                ..Default::default()
            },
        };
    }
    let mut env = calm_env();
    if r.chance(2, 3) {
        env.clear();
        env.push(("PATH".into(), "/usr/bin:/bin".into()));
        let pool: &[(&str, &[&str])] = &[
            ("NO_COLOR", &["1", "", "0"]),
            ("CLICOLOR", &["0", "1"]),
            ("CLICOLOR_FORCE", &["1", "0"]),
            ("TERM", &["xterm-256color", "dumb", ""]),
            ("LANG", &["en_US.UTF-8", "C", "tr_TR.UTF-8", "ja_JP.eucJP"]),
            ("LC_ALL", &["C", "de_DE.UTF-8", "POSIX"]),
            ("TZ", &["UTC", "Asia/Kolkata", "America/St_Johns", ":/nonexistent"]),
            ("HOME", &["/", "/nonexistent", ""]),
            ("COLUMNS", &["1", "40", "100000"]),
            ("LINES", &["1"]),
            ("RUST_BACKTRACE", &["1", "full", "0"]),
            ("RUST_LOG", &["trace"]),
            ("TMPDIR", &["/nonexistent"]),
            ("CFN_GUARD_DEBUG", &["1"]),
            ("JUNK_é", &["ü"]),
        ];
        for (k, vals) in pool {
            if r.chance(1, 3) {
                env.push((k.to_string(), (*r.pick(vals)).to_string()));
            }
        }
    }
    let cwd = if r.chance(1, 2) { Some((*r.pick(&["/", "/dev/shm", "@/", "@/data"])).to_string()) } else { None };
    let heap_seed = if r.chance(2, 3) { r.next() | 1 } else { 0 };
    // history: every step `repeats` times, in a seeded interleaving
    let mut order: Vec<usize> = Vec::new();
    for i in 0..nsteps {
        for _ in 0..repeats {
            order.push(i);
        }
    }
    if r.chance(3, 4) {
        r.shuffle(&mut order);
    }
    let noise = r.chance(1, 3);
    let same_thread = r.chance(1, 2);
    let mtime_seed = if !with_m_flag && r.chance(1, 3) { r.next() | 1 } else { 0 };
    let stale_out = r.chance(1, 3);
    Pert { sim, env, cwd, heap_seed, order, noise, same_thread, mtime_seed, stale_out }
}

fn pert_to_json(p: &Pert) -> Value {
    json!({"sim": serde_json::to_value(&p.sim).unwrap(), "env": p.env, "cwd": p.cwd, "heap_seed": p.heap_seed, "order": p.order, "noise": p.noise, "same_thread": p.same_thread, "mtime_seed": p.mtime_seed, "stale_out": p.stale_out})
}
fn pert_from_json(v: &Value) -> Option<Pert> {
    Some(Pert {
        sim: serde_json::from_value(v.get("sim")?.clone()).ok()?,
        env: serde_json::from_value(v.get("env")?.clone()).ok()?,
        cwd: v.get("cwd").and_then(|c| c.as_str()).map(String::from),
        heap_seed: v.get("heap_seed")?.as_u64()?,
        order: serde_json::from_value(v.get("order")?.clone()).ok()?,
        noise: v.get("noise")?.as_bool()?,
        same_thread: v.get("same_thread").and_then(|b| b.as_bool()).unwrap_or(false),
        mtime_seed: v.get("mtime_seed").and_then(|b| b.as_u64()).unwrap_or(0),
        stale_out: v.get("stale_out").and_then(|b| b.as_bool()).unwrap_or(false),
    })
}

pub fn files_to_json(files: &[FileSpec]) -> Value {
    Value::Array(
        files
            .iter()
            .map(|f| match std::str::from_utf8(&f.bytes) {
                Ok(s) => json!({"rel": f.rel, "text": s, "mtime_ns": f.mtime_ns}),
                Err(_) => json!({"rel": f.rel, "hex": f.bytes.iter().map(|b| format!("{:02x}", b)).collect::<String>(), "mtime_ns": f.mtime_ns}),
            })
            .collect(),
    )
}
pub fn files_from_json(v: &Value) -> Vec<FileSpec> {
    let mut out = Vec::new();
    if let Some(a) = v.as_array() {
        for f in a {
            let rel = f.get("rel").and_then(|x| x.as_str()).unwrap_or("").to_string();
            let bytes = if let Some(t) = f.get("text").and_then(|x| x.as_str()) {
                t.as_bytes().to_vec()
            } else if let Some(h) = f.get("hex").and_then(|x| x.as_str()) {
                (0..h.len() / 2).filter_map(|i| u8::from_str_radix(&h[2 * i..2 * i + 2], 16).ok()).collect()
            } else {
                vec![]
            };
            out.push(FileSpec { rel, bytes, mtime_ns: f.get("mtime_ns").and_then(|x| x.as_i64()).unwrap_or(0) });
        }
    }
    out
}

fn noise_steps(root: &str) -> Vec<Step> {
    // unrelated commands on other inputs, to populate whatever process-global state exists
    vec![
        Step {
            kind: "run_checks".into(),
            argv: vec![],
            stdin: None,
            out_path: None,
            rc: Some(RunChecksSpec {
                data: "{\"zz\": [1, 2, {\"q\": \"noise\"}], \"Resources\": {\"N\": {\"Type\": \"AWS::Noise::Thing\", \"Properties\": {\"P\": 1}}}}".into(),
                data_name: "noise.json".into(),
                rules: "let nv = zz[*]\nrule noise_rule when %nv !empty {\n  zz[2].q == \"noise\"\n  Resources.*.Properties.P == 2\n}\nrule lambda_noise {\n  noise_rule\n}\n".into(),
                rules_name: "lambda-rule".into(),
                verbose: false,
            }),
            label: "noise".into(),
        },
        Step {
            kind: "cli".into(),
            argv: vec!["cfn-guard".into(), "validate".into(), "-r".into(), format!("{root}noise/n.guard"), "-d".into(), format!("{root}noise/n.json")],
            stdin: None,
            out_path: None,
            rc: None,
            label: "noise".into(),
        },
    ]
}

pub fn noise_files() -> Vec<FileSpec> {
    vec![
        FileSpec { rel: "noise/n.guard".into(), bytes: b"let a = Resources.*\nrule r1 when %a !empty {\n  %a.Type == 'X'\n}\nrule r2 {\n  r1\n  k1 exists\n}\n".to_vec(), mtime_ns: 1_600_000_000_000_000_000 },
        FileSpec { rel: "noise/n.json".into(), bytes: b"{\"Resources\": {\"A\": {\"Type\": \"Y\"}}, \"k1\": 1}".to_vec(), mtime_ns: 1_600_000_000_000_000_000 },
    ]
}

struct Observed {
    class: String,
    stdout: Vec<u8>,
    stderr: Vec<u8>,
    outfile: Option<Vec<u8>>,
}

fn observe(s: &StepOut) -> Observed {
    Observed { class: outcome_class(s), stdout: s.stdout.clone(), stderr: s.stderr.clone(), outfile: s.outfile.clone() }
}

fn end_class(o: &ExecOut, idx: usize) -> Option<String> {
    if o.died_in == Some(idx) {
        Some(format!("died:{}", o.end))
    } else {
        None
    }
}

impl C05 {
    fn reference(&self, w: &mut Work, scn: &Scn, rep: &mut Report) -> Vec<Observed> {
        let mut out = Vec::new();
        for st in &scn.steps {
            let mut req = w.req();
            req.steps = vec![st.to_step(&w.root)];
            let o = w.run(&req);
            rep.absorb_exec(&o);
            let obs = match o.steps.first() {
                Some(s) => {
                    let mut ob = observe(s);
                    if let Some(e) = end_class(&o, 0) {
                        ob.class = e;
                    }
                    ob
                }
                None => Observed { class: format!("died:{}", o.end), stdout: vec![], stderr: vec![], outfile: None },
            };
            out.push(obs);
        }
        out
    }

    fn run_pert(&self, w: &mut Work, scn: &Scn, p: &Pert) -> ExecOut {
        // modification times: as generated, or dealt out afresh (a restored backup, a fresh
        // checkout, a `touch`): not an input unless a command asks for `-m`
        {
            let mut times: Vec<i64> = scn.files.iter().map(|f| f.mtime_ns).collect();
            if p.mtime_seed != 0 {
                let mut r = Rng::new(p.mtime_seed);
                r.shuffle(&mut times);
                if r.chance(1, 3) {
                    // ... or all alike
                    let t0 = times.first().copied().unwrap_or(0);
                    times.iter_mut().for_each(|t| *t = t0);
                }
            }
            for (f, t) in scn.files.iter().zip(times) {
                if t != 0 && !f.rel.contains(" -> ") {
                    crate::exec::set_mtime(std::path::Path::new(&w.abs(&f.rel)), t);
                }
            }
        }
        let mut req = w.req();
        req.sim = p.sim.clone();
        req.env = p.env.clone();
        req.cwd = p.cwd.as_ref().map(|c| if let Some(rest) = c.strip_prefix("@/") { format!("{}{}", w.root, rest) } else { c.clone() });
        req.heap_seed = p.heap_seed;
        req.same_thread = p.same_thread;
        req.stale_out = p.stale_out;
        let mut steps = Vec::new();
        if p.noise {
            steps.extend(noise_steps(&w.root));
        }
        for (pos, i) in p.order.iter().enumerate() {
            if let Some(st) = scn.steps.get(*i) {
                steps.push(st.to_step_occ(&w.root, pos));
            }
        }
        req.steps = steps;
        w.run(&req)
    }

    /// Compare a perturbed execution with the reference. Returns (step index, stream, shape) of differences.
    fn compare(&self, scn: &Scn, refs: &[Observed], p: &Pert, o: &ExecOut) -> Vec<(usize, String, String)> {
        let mut out = Vec::new();
        let skip = if p.noise { 2 } else { 0 };
        for (pos, i) in p.order.iter().enumerate() {
            let st = match scn.steps.get(*i) {
                Some(s) => s,
                None => continue,
            };
            let r = &refs[*i];
            let got = match o.steps.get(pos + skip) {
                Some(s) => {
                    let mut ob = observe(s);
                    if let Some(e) = end_class(o, pos + skip) {
                        ob.class = e;
                    }
                    ob
                }
                None => {
                    if o.died_in.map(|d| d < pos + skip).unwrap_or(false) || o.end != "ok" {
                        // the process ended in an earlier step; nothing to compare for later ones
                        continue;
                    }
                    Observed { class: "missing".into(), stdout: vec![], stderr: vec![], outfile: None }
                }
            };
            if got.class != r.class {
                out.push((*i, "exit".to_string(), format!("{}->{}", r.class, got.class)));
                continue;
            }
            if r.class.starts_with("died") || r.class.starts_with("panic") {
                continue;
            }
            if let Some(d) = diff(st.mode, &r.stdout, &got.stdout) {
                out.push((*i, "stdout".into(), d));
            }
            if let Some(d) = diff(Mode::Lines, &r.stderr, &got.stderr) {
                out.push((*i, "stderr".into(), d));
            }
            match (&r.outfile, &got.outfile) {
                (Some(a), Some(b)) => {
                    if let Some(d) = diff(st.mode, a, b) {
                        out.push((*i, "outfile".into(), d));
                    }
                }
                (None, None) => {}
                _ => out.push((*i, "outfile".into(), "presence".into())),
            }
        }
        out
    }

    fn materialise(&self, w: &mut Work, scn: &Scn) {
        let mut files = scn.files.clone();
        files.extend(noise_files());
        w.materialise(&files);
    }

    fn scenario_json(&self, scn: &Scn, p: &Pert) -> Value {
        json!({"files": files_to_json(&scn.files), "steps": scn.steps.iter().map(|s| s.to_json()).collect::<Vec<_>>(), "uses_now": scn.uses_now, "pert": pert_to_json(p)})
    }

    /// Does `p` (vs calm reference) still show a difference on step `si`, stream `stream`? Returns shape.
    fn still_differs(&self, w: &mut Work, scn: &Scn, p: &Pert, si: usize, stream: &str, execs: &mut u64) -> Option<String> {
        self.materialise(w, scn);
        let mut rep = Report::default();
        let refs = self.reference(w, scn, &mut rep);
        let o = self.run_pert(w, scn, p);
        *execs += rep.execs + 1;
        self.compare(scn, &refs, p, &o).into_iter().find(|(i, s, _)| *i == si && s == stream).map(|(_, _, d)| d)
    }

    fn dims_of(&self, p: &Pert, nsteps_once: bool) -> Vec<&'static str> {
        let calm = SimSpec::calm();
        let mut d = Vec::new();
        if p.sim.entropy_seed != calm.entropy_seed {
            d.push("entropy");
        }
        if p.sim.clock_mode != calm.clock_mode || p.sim.real_base_s != calm.real_base_s || p.sim.mono_base_s != calm.mono_base_s {
            d.push("clock");
        }
        if p.sim.dir_mode != calm.dir_mode {
            d.push("readdir");
        }
        if p.sim.faults != FaultSpec::Off {
            d.push("io-chunking");
        }
        if p.env != calm_env() {
            d.push("env");
        }
        if p.cwd.is_some() {
            d.push("cwd");
        }
        if p.heap_seed != 0 {
            d.push("heap");
        }
        if p.mtime_seed != 0 {
            d.push("mtimes");
        }
        if p.stale_out {
            d.push("stale-output-file");
        }
        if !nsteps_once || p.noise {
            d.push("history");
        }
        if p.same_thread && (!nsteps_once || p.noise) {
            d.push("same-thread");
        }
        d
    }

    /// Greedy minimisation. Returns the minimal scenario, perturbation, dimension list and shape.
    fn minimise(&self, w: &mut Work, scn0: &Scn, wl: Option<&Workload>, p0: &Pert, si0: usize, stream: &str, shape0: &str) -> (Scn, Pert, usize, String, String, u64) {
        let mut execs = 0u64;
        let budget = 300u64;
        let mut scn = scn0.clone();
        let mut p = p0.clone();
        let mut si = si0;
        let mut shape = shape0.to_string();
        macro_rules! try_p {
            ($cand:expr) => {{
                let cand: Pert = $cand;
                if execs < budget && cand != p {
                    if let Some(d) = self.still_differs(w, &scn, &cand, si, stream, &mut execs) {
                        p = cand;
                        shape = d;
                        true
                    } else {
                        false
                    }
                } else {
                    false
                }
            }};
        }
        // 1. only the differing step
        {
            let only = Scn { files: scn.files.clone(), steps: vec![scn.steps[si].clone()], uses_now: scn.uses_now };
            let mut pp = p.clone();
            pp.order = p.order.iter().filter(|i| **i == si).map(|_| 0usize).collect();
            if let Some(d) = self.still_differs(w, &only, &pp, 0, stream, &mut execs) {
                scn = only;
                p = pp;
                si = 0;
                shape = d;
            }
        }
        // 2. history: no noise, a single occurrence
        let _ = try_p!(Pert { noise: false, ..p.clone() });
        let _ = try_p!(Pert { same_thread: false, ..p.clone() });
        if scn.steps.len() == 1 {
            let _ = try_p!(Pert { order: vec![0], ..p.clone() });
            if p.order.len() > 1 {
                let _ = try_p!(Pert { order: vec![0, 0], ..p.clone() });
            }
        }
        // 3. environment dimensions back to calm, one at a time
        let calm = SimSpec::calm();
        let _ = try_p!(Pert { sim: SimSpec { faults: FaultSpec::Off, ..p.sim.clone() }, ..p.clone() });
        let _ = try_p!(Pert { sim: SimSpec { clock_mode: calm.clock_mode.clone(), clock_seed: calm.clock_seed, real_base_s: calm.real_base_s, mono_base_s: calm.mono_base_s, ..p.sim.clone() }, ..p.clone() });
        let _ = try_p!(Pert { sim: SimSpec { dir_mode: calm.dir_mode.clone(), dir_seed: calm.dir_seed, ..p.sim.clone() }, ..p.clone() });
        let _ = try_p!(Pert { env: calm_env(), ..p.clone() });
        let _ = try_p!(Pert { cwd: None, ..p.clone() });
        let _ = try_p!(Pert { heap_seed: 0, ..p.clone() });
        let _ = try_p!(Pert { mtime_seed: 0, ..p.clone() });
        let _ = try_p!(Pert { stale_out: false, ..p.clone() });
        let _ = try_p!(Pert { sim: SimSpec { entropy_seed: calm.entropy_seed, ..p.sim.clone() }, ..p.clone() });
        // 3b. random fault plan -> explicit script of the events that fired, then drop events
        if let FaultSpec::Random { .. } = p.sim.faults {
            self.materialise(w, &scn);
            let o = self.run_pert(w, &scn, &p);
            execs += 1;
            if let Some(f) = &o.fin {
                let mut evs = f.events.clone();
                let scripted = Pert { sim: SimSpec { faults: FaultSpec::Script { events: evs.clone() }, ..p.sim.clone() }, ..p.clone() };
                if try_p!(scripted) {
                    // delta-debug the event list: halves, then singles
                    let mut chunk = (evs.len() + 1) / 2;
                    while chunk >= 1 && !evs.is_empty() && execs < budget {
                        let mut i = 0;
                        let mut progressed = false;
                        while i < evs.len() && execs < budget {
                            let mut cand = evs.clone();
                            let end = core::cmp::min(i + chunk, cand.len());
                            cand.drain(i..end);
                            let pc = Pert { sim: SimSpec { faults: FaultSpec::Script { events: cand.clone() }, ..p.sim.clone() }, ..p.clone() };
                            if try_p!(pc) {
                                evs = cand;
                                progressed = true;
                            } else {
                                i += chunk;
                            }
                        }
                        if chunk == 1 && !progressed {
                            break;
                        }
                        chunk = if chunk == 1 { 1 } else { (chunk + 1) / 2 };
                        if chunk == 1 && evs.len() > 40 {
                            break;
                        }
                    }
                }
            }
        }
        // 4. the workload itself (needs the AST)
        if let Some(wl0) = wl {
            let mut wl = wl0.clone();
            let step = scn.steps[si].clone();
            let uses_now = scn.uses_now;
            let mk = |wl: &Workload| -> Scn {
                let mut st = step.clone();
                if let Some(rc) = &mut st.rc {
                    rc.data = doc::render(&wl.docs[0].0, wl.docs[0].1);
                    rc.rules = wl.progs[0].print();
                }
                Scn { files: wl.files(), steps: vec![st], uses_now }
            };
            // only valid if the scenario was already reduced to this one step
            if scn.steps.len() == 1 {
                let mut progress = true;
                while progress && execs < budget {
                    progress = false;
                    let mut cands: Vec<Workload> = Vec::new();
                    for i in (1..wl.progs.len()).rev() {
                        let mut c = wl.clone();
                        c.progs.remove(i);
                        cands.push(c);
                    }
                    for i in (1..wl.docs.len()).rev() {
                        let mut c = wl.clone();
                        c.docs.remove(i);
                        cands.push(c);
                    }
                    if !wl.params.is_empty() {
                        let mut c = wl.clone();
                        c.params.clear();
                        cands.push(c);
                    }
                    for i in (0..wl.tests.len()).rev() {
                        if wl.tests.len() > 1 {
                            let mut c = wl.clone();
                            c.tests.remove(i);
                            cands.push(c);
                        }
                    }
                    for (pi, pr) in wl.progs.iter().enumerate() {
                        for s in rules::shrinks(pr).into_iter().take(40) {
                            let mut c = wl.clone();
                            c.progs[pi] = s;
                            cands.push(c);
                        }
                    }
                    for (di, (d, _)) in wl.docs.iter().enumerate() {
                        for s in doc::shrinks(d).into_iter().take(30) {
                            let mut c = wl.clone();
                            c.docs[di].0 = s;
                            cands.push(c);
                        }
                    }
                    if let Some(t) = &wl.template {
                        for s in doc::shrinks(t).into_iter().take(30) {
                            let mut c = wl.clone();
                            c.template = Some(s);
                            cands.push(c);
                        }
                    }
                    for (ti, t) in wl.tests.iter().enumerate() {
                        for s in doc::shrinks(&t.input).into_iter().take(10) {
                            let mut c = wl.clone();
                            c.tests[ti].input = s;
                            cands.push(c);
                        }
                    }
                    for c in cands {
                        if execs >= budget {
                            break;
                        }
                        let cs = mk(&c);
                        if let Some(d) = self.still_differs(w, &cs, &p, 0, stream, &mut execs) {
                            wl = c;
                            scn = cs;
                            shape = d;
                            progress = true;
                            break;
                        }
                    }
                }
            }
        }
        let dims = self.dims_of(&p, p.order.len() <= 1).join("+");
        (scn, p, si, dims, shape, execs)
    }

    fn gen(&self, seed: u64) -> (Workload, Scn) {
        let mut r = Rng::stream(seed, "workload");
        let mut o = WlOpts::default();
        o.bad_expectations = true;
        // a quarter of the workloads carry adversarial-but-grammatical rules, so that
        // evaluation errors (whose messages list rule / variable names) are exercised too
        o.gen.adversarial = r.chance(1, 4);
        let mut wl = gen_workload(&mut r, &o);
        // a long list of rule names and a reference to a rule that does not exist: the error
        // message enumerates the names (more of them than any "first few" cut keeps)
        if r.chance(1, 8) {
            use crate::rules::{Body, Clause, Cmp, Line, Op, Part, Query, Rule};
            let p = &mut wl.progs[0];
            let n = 9 + r.usize(12);
            for i in 0..n {
                p.rules.push(Rule { name: format!("zq_{}_{}", (b'a' + (i * 7 % 26) as u8) as char, i), when: vec![], body: Body { lets: vec![], lines: vec![Line { alts: vec![Clause::Cmp(Cmp { not: false, q: Query { some: false, parts: vec![Part::Key("zz_no_such_key".into())] }, op: Op::Exists, opnot: true, rhs: None, msg: None })] }] } });
            }
            p.rules.push(Rule { name: "zq_ref".into(), when: vec![], body: Body { lets: vec![], lines: vec![Line { alts: vec![Clause::Ref { not: false, name: "zq_no_such_rule".into(), msg: None }] }] } });
        }
        let nsteps = 1 + r.usize(4);
        let mut steps = Vec::new();
        for _ in 0..nsteps {
            steps.push(gen_step(&mut r, &wl));
        }
        let uses_now = wl.progs.iter().any(|p| p.uses_now());
        (wl.clone(), Scn { files: wl.files(), steps, uses_now })
    }
}

impl Check for C05 {
    fn id(&self) -> &'static str {
        "C05"
    }
    fn level(&self) -> &'static str {
        "exploration"
    }
    fn scenarios(&self, tier: Tier) -> u64 {
        match tier {
            Tier::Quick => 600,
            Tier::Thorough => 12000,
        }
    }
    fn rule_text(&self) -> String {
        "scenario n = generated workload (1-3 rule files from an AST grammar, 1-3 documents, test spec, template, optional parameter file) x 1-4 invocations over the real flag set; evaluations = child-process executions; each scenario runs every command alone in a calm reference process and then k perturbed processes (entropy, clock, env, cwd, readdir permutation, heap, read/write chunking+EINTR, shuffled 5x-repeated history with noise commands) and compares exit class and outputs (exact bytes for structured formats, JUnit modulo time=, line multiset for console text). distinct_nontrivial = distinct (command class, outcome class, output digest) triples whose reference output is non-empty".into()
    }
    fn assumptions(&self) -> Vec<String> {
        vec![
            "std reaches the OS only through the interposed libc symbols (checked by the seam liveness self-test at setup)".into(),
            "stdout/stderr are File-backed Writer buffers (public API); the tty/LineWriter path of main.rs is not exercised".into(),
            "hard write errors (ENOSPC/EPIPE) are outside the statement and not injected; only short writes and EINTR".into(),
            "with -m, mtimes are distinct and part of the input; directory order is varied only where the tool defines the order (sorted walks)".into(),
        ]
    }
    fn required_reach(&self, tier: Tier) -> Vec<(&'static str, u64)> {
        let mut v = vec![("gen.steps", 1), ("gen.ref_nonempty", 1)];
        if tier == Tier::Thorough {
            v.extend([("reach.short_write_split_utf8", 1), ("reach.short_read_split_utf8", 1), ("reach.test_multi_status", 1), ("reach.rulegen_multi_value", 1), ("reach.cfn_console_report", 1), ("reach.eval_error_message", 1)]);
        }
        v
    }

    fn run_scenario(&self, w: &mut Work, base_seed: u64, n: u64, tier: Tier) -> Report {
        let mut rep = Report::new(n);
        let seed = derive(base_seed, "C05", n);
        let (wl, scn) = self.gen(seed);
        self.materialise(w, &scn);
        let refs = self.reference(w, &scn, &mut rep);
        rep.count("gen.steps", scn.steps.len() as u64);
        for (st, r) in scn.steps.iter().zip(refs.iter()) {
            if !r.stdout.is_empty() || r.outfile.as_ref().map(|o| !o.is_empty()).unwrap_or(false) {
                rep.count("gen.ref_nonempty", 1);
                rep.classes.push(format!("{}|{}|{:016x}", st.class, r.class, crate::prng::fnv(&r.stdout) ^ r.outfile.as_ref().map(|o| crate::prng::fnv(o)).unwrap_or(0)));
            }
            rep.count(&format!("outcome.{}", r.class.split(':').next().unwrap_or("")), 1);
            rep.count(&format!("cmd.{}", st.class), 1);
            // reach probes
            let so = String::from_utf8_lossy(&r.stdout);
            if st.class.starts_with("test-") && so.contains("PASS") && so.contains("FAIL") {
                rep.count("reach.test_multi_status", 1);
            }
            if st.class == "rulegen" && (so.contains(" IN [") || r.outfile.as_ref().map(|o| String::from_utf8_lossy(o).contains(" IN [")).unwrap_or(false)) {
                rep.count("reach.rulegen_multi_value", 1);
            }
            if st.class.starts_with("validate-plain") && so.contains("Resource = ") {
                rep.count("reach.cfn_console_report", 1);
            }
            let se = String::from_utf8_lossy(&r.stderr);
            if r.class == "err:255" && (se.contains("Rule Names") || se.contains("across scopes") || se.contains("candidate")) {
                rep.count("reach.eval_error_message", 1);
            }
        }
        let k = match tier {
            Tier::Quick => 5,
            Tier::Thorough => 12,
        };
        let dir_ok = scn.steps.iter().all(|s| s.dir_order_defined);
        let mut seen: BTreeMap<String, ()> = BTreeMap::new();
        for e in 0..k {
            let mut r = Rng::new(derive(seed, "pert", e));
            let with_m = scn.steps.iter().any(|s| s.argv.iter().any(|a| a == "-m" || a == "--last-modified"));
            let p = gen_pert(&mut r, scn.steps.len(), scn.uses_now, with_m, dir_ok, if e % 2 == 0 { 5 } else { 2 });
            let o = self.run_pert(w, &scn, &p);
            rep.absorb_exec(&o);
            let diffs = self.compare(&scn, &refs, &p, &o);
            for (si, stream, shape) in diffs {
                let key = format!("{}/{}/{}", scn.steps[si].class, stream, shape);
                if seen.contains_key(&key) {
                    continue;
                }
                seen.insert(key, ());
                // every reported failure must replay: confirm by re-execution first
                let mut cexecs = 0;
                if self.still_differs(w, &scn, &p, si, &stream, &mut cexecs).is_none() {
                    rep.execs += cexecs;
                    rep.count("harness.unconfirmed_findings", 1);
                    continue;
                }
                rep.execs += cexecs;
                let prekey = format!("{}/{}/{}", scn.steps[si].class, stream, shape);
                if !w.seen.insert(prekey) {
                    // same class already minimised by this worker: report as is (dimension list unreduced)
                    let dims = self.dims_of(&p, false).join("+");
                    let class = scn.steps[si].class.clone();
                    rep.violations.push(Violation {
                        what: format!("`{}` {} differs from the calm reference under [{}] ({})", class, stream, dims, shape),
                        signature: format!("{}/{}/unreduced/{}", class, stream, shape),
                        replay: self.scenario_json(&scn, &p),
                        shrink_execs: 0,
                        minimised: false,
                    });
                    continue;
                }
                let (mscn, mp, msi, dims, mshape, execs) = self.minimise(w, &scn, Some(&wl), &p, si, &stream, &shape);
                rep.execs += execs;
                let class = mscn.steps.get(msi).map(|s| s.class.clone()).unwrap_or_default();
                let sig = format!("{}/{}/{}/{}", class, stream, dims, mshape);
                rep.violations.push(Violation {
                    what: format!("`{}` {} differs from the calm reference under [{}] ({})", class, stream, dims, mshape),
                    signature: sig,
                    replay: self.scenario_json(&mscn, &mp),
                    shrink_execs: execs,
                    minimised: true,
                });
                // restore the full scenario's files for the remaining perturbations
                self.materialise(w, &scn);
            }
        }
        if n < 3 {
            rep.sample = Some(json!({
                "commands": scn.steps.iter().map(|s| s.argv.join(" ")).collect::<Vec<_>>(),
                "rules_r0": wl.progs[0].print().chars().take(600).collect::<String>(),
                "data_d0": doc::render(&wl.docs[0].0, wl.docs[0].1).chars().take(300).collect::<String>(),
                "reference_outcomes": refs.iter().map(|r| r.class.clone()).collect::<Vec<_>>(),
            }));
        }
        rep
    }

    fn replay(&self, w: &mut Work, v: &Value) -> Vec<Violation> {
        let files = files_from_json(v.get("files").unwrap_or(&Value::Null));
        let steps: Vec<StepT> = v.get("steps").and_then(|s| s.as_array()).map(|a| a.iter().filter_map(StepT::from_json).collect()).unwrap_or_default();
        let p = match v.get("pert").and_then(pert_from_json) {
            Some(p) => p,
            None => return vec![],
        };
        let scn = Scn { files, steps, uses_now: v.get("uses_now").and_then(|b| b.as_bool()).unwrap_or(false) };
        self.materialise(w, &scn);
        let mut rep = Report::default();
        let refs = self.reference(w, &scn, &mut rep);
        let o = self.run_pert(w, &scn, &p);
        let dims = self.dims_of(&p, p.order.len() <= 1).join("+");
        self.compare(&scn, &refs, &p, &o)
            .into_iter()
            .map(|(si, stream, shape)| {
                let class = scn.steps[si].class.clone();
                println!("--- reference {} of `{}`:\n{}", stream, class, String::from_utf8_lossy(if stream == "stderr" { &refs[si].stderr } else { &refs[si].stdout }));
                let pos = p.order.iter().position(|i| *i == si).unwrap_or(0) + if p.noise { 2 } else { 0 };
                if let Some(s) = o.steps.get(pos) {
                    println!("--- perturbed {}:\n{}", stream, String::from_utf8_lossy(if stream == "stderr" { &s.stderr } else { &s.stdout }));
                }
                Violation { signature: format!("{}/{}/{}/{}", class, stream, dims, shape), what: format!("`{}` {} differs under [{}] ({})", class, stream, dims, shape), replay: Value::Null, shrink_execs: 0, minimised: false }
            })
            .collect()
    }
}
