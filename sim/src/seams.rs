//! libc-level seams. This executable *defines* `getrandom`, `clock_gettime`, `read`,
//! `write`, `open64`, `close`, `readdir64`, `closedir`, so the statically linked std /
//! walkdir / chrono inside this same executable bind to these versions. When the simulator
//! is not armed every hook is a pass-through to the raw system call.
//!
//! All decisions are a pure function of the `SimCfg` (seeds or explicit script); every
//! decision is folded into a trace hash and every non-clean decision is recorded so that
//! a run can be replayed from an explicit fault list.

use crate::prng::{Fnv, Rng};
use libc::{c_char, c_int, c_uint, c_void, size_t, ssize_t};
use std::cell::UnsafeCell;
use std::sync::atomic::{AtomicBool, AtomicUsize, Ordering};

pub const MAX_FD: usize = 4096;

#[derive(Clone, Copy, PartialEq, Eq, Debug)]
#[repr(u8)]
pub enum FdClass {
    None = 0,
    /// an input the tool reads (rules / data / params / tests / template / stdin)
    In = 1,
    /// an output the tool writes (stdout / stderr memfd / -o file)
    Out = 2,
}

#[derive(Clone, Copy, PartialEq, Eq, Debug)]
#[repr(u8)]
pub enum Seam {
    Read = 0,
    Write = 1,
    Open = 2,
}

#[derive(Clone, Copy, PartialEq, Eq, Debug)]
#[repr(u8)]
pub enum Act {
    Clean = 0,
    /// transfer at most `arg` bytes (>= 1)
    Short = 1,
    Eintr = 2,
    Eio = 3,
    /// report end of file now although data remains
    Eof = 4,
    Enoent = 5,
    Eacces = 6,
    Emfile = 7,
}

impl Act {
    pub fn name(self) -> &'static str {
        match self {
            Act::Clean => "clean",
            Act::Short => "short",
            Act::Eintr => "eintr",
            Act::Eio => "eio",
            Act::Eof => "eof",
            Act::Enoent => "enoent",
            Act::Eacces => "eacces",
            Act::Emfile => "emfile",
        }
    }
    pub fn from_name(s: &str) -> Option<Act> {
        Some(match s {
            "clean" => Act::Clean,
            "short" => Act::Short,
            "eintr" => Act::Eintr,
            "eio" => Act::Eio,
            "eof" => Act::Eof,
            "enoent" => Act::Enoent,
            "eacces" => Act::Eacces,
            "emfile" => Act::Emfile,
            _ => return None,
        })
    }
}
impl Seam {
    pub fn name(self) -> &'static str {
        match self {
            Seam::Read => "read",
            Seam::Write => "write",
            Seam::Open => "open",
        }
    }
    pub fn from_name(s: &str) -> Option<Seam> {
        Some(match s {
            "read" => Seam::Read,
            "write" => Seam::Write,
            "open" => Seam::Open,
            _ => return None,
        })
    }
}

/// One non-clean decision, keyed by the per-seam call index among *classified* calls.
#[derive(Clone, Copy, Debug, PartialEq, Eq)]
pub struct FaultEv {
    pub seam: Seam,
    pub idx: u32,
    pub act: Act,
    pub arg: u32,
}

/// Per-call probabilities are num/256.
#[derive(Clone, Debug, Default)]
pub struct FaultRates {
    pub read_short: u8,
    pub read_eintr: u8,
    pub read_eio: u8,
    pub read_eof: u8,
    pub write_short: u8,
    pub write_eintr: u8,
    pub open_fail: u8,
    /// upper bound for the size of a short transfer (1..=max_short)
    pub max_short: u32,
}

#[derive(Clone, Debug)]
pub enum FaultPlan {
    Off,
    Random { seed: u64, rates: FaultRates },
    Script(Vec<FaultEv>),
}

#[derive(Clone, Copy, Debug, PartialEq, Eq)]
pub enum ClockMode {
    /// never advances
    Frozen,
    /// +1 ms per call
    Steady,
    /// seeded step 0..50 ms, occasional hour-scale leaps, realtime jumps both ways
    Wild,
}

#[derive(Clone, Copy, Debug, PartialEq, Eq)]
pub enum DirMode {
    /// leave the kernel's order alone
    Natural,
    /// seeded permutation
    Shuffle,
    /// byte-wise ascending / descending (useful extremes)
    Asc,
    Desc,
}

#[derive(Clone, Debug)]
pub struct SimCfg {
    pub entropy_seed: u64,
    pub clock_mode: ClockMode,
    pub clock_seed: u64,
    /// seconds since the epoch at start
    pub real_base_s: i64,
    pub mono_base_s: i64,
    pub dir_mode: DirMode,
    pub dir_seed: u64,
    pub faults: FaultPlan,
    /// absolute path prefix (with trailing '/') of the scenario root
    pub root: Vec<u8>,
    /// sub-directory (under root) whose files are outputs rather than inputs
    pub out_dir: Vec<u8>,
}

#[derive(Clone, Debug, Default)]
pub struct SimStats {
    pub reads: u64,
    pub writes: u64,
    pub opens: u64,
    pub getrandoms: u64,
    pub clock_calls: u64,
    pub dir_scans: u64,
    pub dir_entries: u64,
    pub fired: [u64; 8],
    pub mono_advance_ns: u64,
    pub real_backward_jumps: u64,
    pub short_read_split_utf8: u64,
    pub short_write_split_utf8: u64,
    pub bytes_read: u64,
    pub bytes_written: u64,
    /// paths (relative to the scenario root) whose open/read was failed by a hard fault
    pub hard_faulted: Vec<String>,
}

struct DirState {
    dir: *mut libc::DIR,
    entries: Vec<Box<libc::dirent64>>,
    next: usize,
}

struct State {
    cfg: SimCfg,
    entropy: Rng,
    clock: Rng,
    dirs_rng: Rng,
    fault_rng: Rng,
    mono_ns: u64,
    mono_start_ns: u64,
    real_off_ns: i64,
    counters: [u32; 3],
    script_pos: usize,
    events: Vec<FaultEv>,
    stats: SimStats,
    trace: Fnv,
    dirs: Vec<DirState>,
    fd_class: [u8; MAX_FD],
    fd_path: Vec<Option<String>>,
}

struct Global(UnsafeCell<Option<State>>);
unsafe impl Sync for Global {}
static G: Global = Global(UnsafeCell::new(None));
static ARMED: AtomicBool = AtomicBool::new(false);
static LOCK: AtomicBool = AtomicBool::new(false);
static REAL_READDIR64: AtomicUsize = AtomicUsize::new(0);
static REAL_CLOSEDIR: AtomicUsize = AtomicUsize::new(0);

struct Guard;
impl Guard {
    fn take() -> Guard {
        while LOCK
            .compare_exchange_weak(false, true, Ordering::Acquire, Ordering::Relaxed)
            .is_err()
        {
            std::hint::spin_loop();
        }
        Guard
    }
}
impl Drop for Guard {
    fn drop(&mut self) {
        LOCK.store(false, Ordering::Release);
    }
}

#[inline]
fn st() -> &'static mut State {
    unsafe { (*G.0.get()).as_mut().unwrap_unchecked() }
}

fn set_errno(e: c_int) {
    unsafe { *libc::__errno_location() = e };
}

/// Install a configuration and arm the seams. Call from the child before running a command.
pub fn arm(cfg: SimCfg) {
    let _g = Guard::take();
    let mut state = State {
        entropy: Rng::new(cfg.entropy_seed),
        clock: Rng::new(cfg.clock_seed),
        dirs_rng: Rng::new(cfg.dir_seed),
        fault_rng: Rng::new(match &cfg.faults {
            FaultPlan::Random { seed, .. } => *seed,
            _ => 0,
        }),
        mono_ns: (cfg.mono_base_s as u64).wrapping_mul(1_000_000_000),
        mono_start_ns: (cfg.mono_base_s as u64).wrapping_mul(1_000_000_000),
        real_off_ns: 0,
        counters: [0; 3],
        script_pos: 0,
        events: Vec::with_capacity(256),
        stats: SimStats::default(),
        trace: Fnv::new(),
        dirs: Vec::with_capacity(8),
        fd_class: [0; MAX_FD],
        fd_path: vec![None; MAX_FD],
        cfg,
    };
    if let FaultPlan::Script(ref mut evs) = state.cfg.faults {
        evs.sort_by_key(|e| (e.seam as u8, e.idx));
    }
    unsafe { *G.0.get() = Some(state) };
    ARMED.store(true, Ordering::SeqCst);
}

pub struct Disarmed {
    pub stats: SimStats,
    pub events: Vec<FaultEv>,
    pub trace: u64,
}

pub fn disarm() -> Disarmed {
    let _g = Guard::take();
    ARMED.store(false, Ordering::SeqCst);
    let s = unsafe { (*G.0.get()).take() }.expect("disarm without arm");
    let mut stats = s.stats;
    stats.mono_advance_ns = s.mono_ns.wrapping_sub(s.mono_start_ns);
    Disarmed { stats, events: s.events, trace: s.trace.0 }
}

pub fn is_armed() -> bool {
    ARMED.load(Ordering::Relaxed)
}

/// Classify a descriptor by hand (stdin / stdout / stderr memfds).
pub fn register_fd(fd: c_int, class: FdClass) {
    if !is_armed() || fd < 0 || fd as usize >= MAX_FD {
        return;
    }
    let _g = Guard::take();
    st().fd_class[fd as usize] = class as u8;
}

/// Like `register_fd`, remembering which scenario file the descriptor stands for.
pub fn register_fd_path(fd: c_int, class: FdClass, abs_path: &str) {
    if !is_armed() || fd < 0 || fd as usize >= MAX_FD {
        return;
    }
    let _g = Guard::take();
    let s = st();
    s.fd_class[fd as usize] = class as u8;
    let root = String::from_utf8_lossy(&s.cfg.root).into_owned();
    s.fd_path[fd as usize] = Some(abs_path.strip_prefix(&root).unwrap_or(abs_path).to_string());
}

fn decide(s: &mut State, seam: Seam, req: usize) -> (Act, u32) {
    let idx = s.counters[seam as usize];
    s.counters[seam as usize] += 1;
    let (act, arg) = match &s.cfg.faults {
        FaultPlan::Off => (Act::Clean, 0),
        FaultPlan::Script(evs) => {
            // events are sorted by (seam, idx); linear probe from the beginning is fine (short lists)
            let mut found = (Act::Clean, 0);
            for e in evs.iter() {
                if e.seam == seam && e.idx == idx {
                    found = (e.act, e.arg);
                    break;
                }
            }
            found
        }
        FaultPlan::Random { rates, .. } => {
            let r = (s.fault_rng.next() & 0xff) as u8 as u32;
            let r2 = s.fault_rng.next();
            let max_short = core::cmp::max(1, rates.max_short) as u64;
            match seam {
                Seam::Read => {
                    let a = rates.read_short as u32;
                    let b = a + rates.read_eintr as u32;
                    let c = b + rates.read_eio as u32;
                    let d = c + rates.read_eof as u32;
                    if r < a {
                        (Act::Short, 1 + (r2 % max_short) as u32)
                    } else if r < b {
                        (Act::Eintr, 0)
                    } else if r < c {
                        (Act::Eio, 0)
                    } else if r < d {
                        (Act::Eof, 0)
                    } else {
                        (Act::Clean, 0)
                    }
                }
                Seam::Write => {
                    let a = rates.write_short as u32;
                    let b = a + rates.write_eintr as u32;
                    if r < a {
                        (Act::Short, 1 + (r2 % max_short) as u32)
                    } else if r < b {
                        (Act::Eintr, 0)
                    } else {
                        (Act::Clean, 0)
                    }
                }
                Seam::Open => {
                    if r < rates.open_fail as u32 {
                        match r2 % 3 {
                            0 => (Act::Enoent, 0),
                            1 => (Act::Eacces, 0),
                            _ => (Act::Emfile, 0),
                        }
                    } else {
                        (Act::Clean, 0)
                    }
                }
            }
        }
    };
    // a "short" transfer that is not actually shorter than the request is clean
    let (act, arg) = if act == Act::Short && (arg as usize) >= req { (Act::Clean, 0) } else { (act, arg) };
    if act != Act::Clean {
        s.stats.fired[act as usize] += 1;
        if s.events.len() < 100_000 {
            s.events.push(FaultEv { seam, idx, act, arg });
        }
    }
    s.trace.byte(seam as u8);
    s.trace.byte(act as u8);
    s.trace.u64(((idx as u64) << 32) | arg as u64);
    (act, arg)
}

#[inline]
fn is_utf8_cont(b: u8) -> bool {
    (b & 0xC0) == 0x80
}

// ---------------------------------------------------------------------------------------
// interposed symbols
// ---------------------------------------------------------------------------------------

#[no_mangle]
pub unsafe extern "C" fn getrandom(buf: *mut c_void, len: size_t, flags: c_uint) -> ssize_t {
    if ARMED.load(Ordering::Relaxed) {
        let _g = Guard::take();
        let s = st();
        let out = std::slice::from_raw_parts_mut(buf as *mut u8, len);
        s.entropy.fill(out);
        s.stats.getrandoms += 1;
        s.trace.byte(0x10);
        s.trace.u64(len as u64);
        return len as ssize_t;
    }
    libc::syscall(libc::SYS_getrandom, buf, len, flags) as ssize_t
}

#[no_mangle]
pub unsafe extern "C" fn clock_gettime(clk: libc::clockid_t, ts: *mut libc::timespec) -> c_int {
    if ARMED.load(Ordering::Relaxed) {
        let _g = Guard::take();
        let s = st();
        s.stats.clock_calls += 1;
        let step: u64 = match s.cfg.clock_mode {
            ClockMode::Frozen => 0,
            ClockMode::Steady => 1_000_000,
            ClockMode::Wild => {
                let r = s.clock.next();
                match r & 0x3f {
                    0 => 3_600_000_000_000u64 * (1 + (r >> 8) % 48), // hours
                    1..=7 => 0,
                    _ => (r >> 8) % 50_000_000,
                }
            }
        };
        s.mono_ns = s.mono_ns.wrapping_add(step);
        if s.cfg.clock_mode == ClockMode::Wild {
            let r = s.clock.next();
            if r & 0x1f == 0 {
                // NTP-style step of the wall clock, either direction, up to ~1 day
                let mag = ((r >> 8) % 86_400_000) as i64 * 1_000_000;
                if r & 0x20 == 0 {
                    s.real_off_ns += mag;
                } else {
                    s.real_off_ns -= mag;
                    s.stats.real_backward_jumps += 1;
                }
            }
        }
        let v: i128 = match clk {
            libc::CLOCK_REALTIME | libc::CLOCK_REALTIME_COARSE => {
                (s.cfg.real_base_s as i128) * 1_000_000_000
                    + (s.mono_ns.wrapping_sub(s.mono_start_ns)) as i128
                    + s.real_off_ns as i128
            }
            _ => s.mono_ns as i128,
        };
        let v = if v < 0 { 0 } else { v };
        (*ts).tv_sec = (v / 1_000_000_000) as libc::time_t;
        (*ts).tv_nsec = (v % 1_000_000_000) as libc::c_long;
        s.trace.byte(0x11);
        s.trace.u64(v as u64);
        return 0;
    }
    libc::syscall(libc::SYS_clock_gettime, clk, ts) as c_int
}

#[no_mangle]
pub unsafe extern "C" fn read(fd: c_int, buf: *mut c_void, count: size_t) -> ssize_t {
    if ARMED.load(Ordering::Relaxed) && fd >= 0 && (fd as usize) < MAX_FD {
        let _g = Guard::take();
        let s = st();
        if s.fd_class[fd as usize] == FdClass::In as u8 && count > 0 {
            s.stats.reads += 1;
            let (act, arg) = decide(s, Seam::Read, count);
            match act {
                Act::Eintr => {
                    set_errno(libc::EINTR);
                    return -1;
                }
                Act::Eio => {
                    if let Some(Some(p)) = s.fd_path.get(fd as usize) {
                        let p = p.clone();
                        s.stats.hard_faulted.push(p);
                    }
                    set_errno(libc::EIO);
                    return -1;
                }
                Act::Eof => {
                    if let Some(Some(p)) = s.fd_path.get(fd as usize) {
                        let p = format!("eof:{}", p);
                        s.stats.hard_faulted.push(p);
                    }
                    return 0;
                }
                _ => {}
            }
            let want = if act == Act::Short { core::cmp::min(count, arg as usize) } else { count };
            let n = libc::syscall(libc::SYS_read, fd, buf, want) as ssize_t;
            if n > 0 {
                s.stats.bytes_read += n as u64;
                if act == Act::Short {
                    // did the cut land inside a multi-byte character? (peek at the next byte)
                    let mut nb = 0u8;
                    let off = libc::lseek(fd, 0, libc::SEEK_CUR);
                    if off >= 0 && libc::pread(fd, &mut nb as *mut u8 as *mut c_void, 1, off) == 1 && is_utf8_cont(nb) {
                        s.stats.short_read_split_utf8 += 1;
                    }
                }
            }
            s.trace.u64(n as u64);
            return n;
        }
    }
    libc::syscall(libc::SYS_read, fd, buf, count) as ssize_t
}

#[no_mangle]
pub unsafe extern "C" fn write(fd: c_int, buf: *const c_void, count: size_t) -> ssize_t {
    if ARMED.load(Ordering::Relaxed) && fd >= 0 && (fd as usize) < MAX_FD {
        let _g = Guard::take();
        let s = st();
        if s.fd_class[fd as usize] == FdClass::Out as u8 && count > 0 {
            s.stats.writes += 1;
            let (act, arg) = decide(s, Seam::Write, count);
            if act == Act::Eintr {
                set_errno(libc::EINTR);
                return -1;
            }
            let want = if act == Act::Short { core::cmp::min(count, arg as usize) } else { count };
            if want < count {
                let nb = *(buf as *const u8).add(want);
                if is_utf8_cont(nb) {
                    s.stats.short_write_split_utf8 += 1;
                }
            }
            let n = libc::syscall(libc::SYS_write, fd, buf, want) as ssize_t;
            if n > 0 {
                s.stats.bytes_written += n as u64;
            }
            s.trace.u64(n as u64);
            return n;
        }
    }
    libc::syscall(libc::SYS_write, fd, buf, count) as ssize_t
}

unsafe fn classify_path(s: &State, path: *const c_char) -> FdClass {
    let p = std::ffi::CStr::from_ptr(path).to_bytes();
    if !s.cfg.root.is_empty() && p.starts_with(&s.cfg.root) {
        let rest = &p[s.cfg.root.len()..];
        if !s.cfg.out_dir.is_empty() && rest.starts_with(&s.cfg.out_dir) {
            FdClass::Out
        } else {
            FdClass::In
        }
    } else {
        FdClass::None
    }
}

unsafe fn rel_of(s: &State, path: *const c_char) -> String {
    let p = std::ffi::CStr::from_ptr(path).to_bytes();
    let rest = if p.starts_with(&s.cfg.root) { &p[s.cfg.root.len()..] } else { p };
    String::from_utf8_lossy(rest).into_owned()
}

#[no_mangle]
pub unsafe extern "C" fn open64(path: *const c_char, flags: c_int, mode: libc::mode_t) -> c_int {
    if ARMED.load(Ordering::Relaxed) && !path.is_null() {
        let _g = Guard::take();
        let s = st();
        let class = classify_path(s, path);
        // directories are opened by opendir(), not through here; O_DIRECTORY guards anyway
        if class != FdClass::None && (flags & libc::O_DIRECTORY) == 0 {
            s.stats.opens += 1;
            if class == FdClass::In {
                let (act, _) = decide(s, Seam::Open, usize::MAX);
                let e = match act {
                    Act::Enoent => libc::ENOENT,
                    Act::Eacces => libc::EACCES,
                    Act::Emfile => libc::EMFILE,
                    _ => 0,
                };
                if e != 0 {
                    s.stats.hard_faulted.push(rel_of(s, path));
                    set_errno(e);
                    return -1;
                }
            }
            let fd = libc::syscall(libc::SYS_openat, libc::AT_FDCWD, path, flags, mode as c_uint) as c_int;
            if fd >= 0 && (fd as usize) < MAX_FD {
                s.fd_class[fd as usize] = class as u8;
                let rel = rel_of(s, path);
                s.fd_path[fd as usize] = Some(rel);
            }
            return fd;
        }
    }
    libc::syscall(libc::SYS_openat, libc::AT_FDCWD, path, flags, mode as c_uint) as c_int
}

#[no_mangle]
pub unsafe extern "C" fn open(path: *const c_char, flags: c_int, mode: libc::mode_t) -> c_int {
    open64(path, flags, mode)
}

#[no_mangle]
pub unsafe extern "C" fn close(fd: c_int) -> c_int {
    if ARMED.load(Ordering::Relaxed) && fd >= 0 && (fd as usize) < MAX_FD {
        let _g = Guard::take();
        st().fd_class[fd as usize] = 0;
        st().fd_path[fd as usize] = None;
    }
    libc::syscall(libc::SYS_close, fd) as c_int
}

type ReaddirFn = unsafe extern "C" fn(*mut libc::DIR) -> *mut libc::dirent64;
type ClosedirFn = unsafe extern "C" fn(*mut libc::DIR) -> c_int;

unsafe fn real_readdir64() -> ReaddirFn {
    let mut p = REAL_READDIR64.load(Ordering::Relaxed);
    if p == 0 {
        p = libc::dlsym(libc::RTLD_NEXT, b"readdir64\0".as_ptr() as *const c_char) as usize;
        REAL_READDIR64.store(p, Ordering::Relaxed);
    }
    std::mem::transmute::<usize, ReaddirFn>(p)
}
unsafe fn real_closedir() -> ClosedirFn {
    let mut p = REAL_CLOSEDIR.load(Ordering::Relaxed);
    if p == 0 {
        p = libc::dlsym(libc::RTLD_NEXT, b"closedir\0".as_ptr() as *const c_char) as usize;
        REAL_CLOSEDIR.store(p, Ordering::Relaxed);
    }
    std::mem::transmute::<usize, ClosedirFn>(p)
}

fn dname(e: &libc::dirent64) -> &[u8] {
    let n = e.d_name.iter().position(|c| *c == 0).unwrap_or(e.d_name.len());
    unsafe { std::slice::from_raw_parts(e.d_name.as_ptr() as *const u8, n) }
}

#[no_mangle]
pub unsafe extern "C" fn readdir64(dir: *mut libc::DIR) -> *mut libc::dirent64 {
    let real = real_readdir64();
    if ARMED.load(Ordering::Relaxed) {
        let _g = Guard::take();
        let s = st();
        if s.cfg.dir_mode != DirMode::Natural {
            let pos = match s.dirs.iter().position(|d| d.dir == dir) {
                Some(p) => p,
                None => {
                    // first call on this stream: drain it, then hand the entries out in our order
                    let mut entries: Vec<Box<libc::dirent64>> = Vec::new();
                    loop {
                        let e = real(dir);
                        if e.is_null() {
                            break;
                        }
                        // dirent64 records are variable length on disk but the struct is max-sized
                        let mut copy: Box<libc::dirent64> = Box::new(std::mem::zeroed());
                        let reclen = core::cmp::min((*e).d_reclen as usize, std::mem::size_of::<libc::dirent64>());
                        std::ptr::copy_nonoverlapping(e as *const u8, &mut *copy as *mut libc::dirent64 as *mut u8, reclen);
                        entries.push(copy);
                    }
                    // canonical base order first, so the permutation is a function of names + seed only
                    entries.sort_by(|a, b| dname(a).cmp(dname(b)));
                    match s.cfg.dir_mode {
                        DirMode::Shuffle => s.dirs_rng.shuffle(&mut entries),
                        DirMode::Desc => entries.reverse(),
                        _ => {}
                    }
                    s.stats.dir_scans += 1;
                    s.stats.dir_entries += entries.len() as u64;
                    s.trace.byte(0x12);
                    for e in &entries {
                        s.trace.bytes(dname(e));
                        s.trace.byte(0);
                    }
                    s.dirs.push(DirState { dir, entries, next: 0 });
                    s.dirs.len() - 1
                }
            };
            let d = &mut s.dirs[pos];
            if d.next < d.entries.len() {
                let p = &mut *d.entries[d.next] as *mut libc::dirent64;
                d.next += 1;
                return p;
            }
            return std::ptr::null_mut();
        }
    }
    real(dir)
}

#[no_mangle]
pub unsafe extern "C" fn closedir(dir: *mut libc::DIR) -> c_int {
    let real = real_closedir();
    if ARMED.load(Ordering::Relaxed) {
        let _g = Guard::take();
        let s = st();
        if let Some(p) = s.dirs.iter().position(|d| d.dir == dir) {
            s.dirs.swap_remove(p);
        }
    }
    real(dir)
}

// ---------------------------------------------------------------------------------------
// raw helpers for harness-side I/O that must never be perturbed
// ---------------------------------------------------------------------------------------

pub fn raw_write_all(fd: c_int, mut data: &[u8]) -> bool {
    while !data.is_empty() {
        let n = unsafe { libc::syscall(libc::SYS_write, fd, data.as_ptr(), data.len()) };
        if n < 0 {
            let e = unsafe { *libc::__errno_location() };
            if e == libc::EINTR {
                continue;
            }
            return false;
        }
        data = &data[n as usize..];
    }
    true
}

pub fn raw_read_all_at(fd: c_int) -> Vec<u8> {
    let mut out = Vec::new();
    let mut off: i64 = 0;
    let mut buf = [0u8; 65536];
    loop {
        let n = unsafe { libc::pread(fd, buf.as_mut_ptr() as *mut c_void, buf.len(), off) };
        if n < 0 {
            let e = unsafe { *libc::__errno_location() };
            if e == libc::EINTR {
                continue;
            }
            break;
        }
        if n == 0 {
            break;
        }
        out.extend_from_slice(&buf[..n as usize]);
        off += n as i64;
    }
    out
}
