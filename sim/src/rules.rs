//! Rule-program AST for the documented Guard language, canonical printer, a generator that
//! is guided by a document (so that queries resolve and all three statuses occur), and
//! one-step shrinking.

use crate::doc::{self, Seg, J};
use crate::prng::Rng;

#[derive(Clone, Debug, PartialEq)]
pub struct Prog {
    pub lets: Vec<Let>,
    pub prules: Vec<PRule>,
    pub rules: Vec<Rule>,
    /// clauses outside any rule (the implicit default rule)
    pub default_lines: Vec<Line>,
}

#[derive(Clone, Debug, PartialEq)]
pub struct Let {
    pub name: String,
    pub val: Arg,
}

#[derive(Clone, Debug, PartialEq)]
pub struct Func {
    pub name: String,
    pub args: Vec<Arg>,
}

#[derive(Clone, Debug, PartialEq)]
pub enum Arg {
    Lit(J),
    Query(Query),
    Func(Box<Func>),
}

#[derive(Clone, Debug, PartialEq)]
pub struct Rule {
    pub name: String,
    pub when: Vec<Line>,
    pub body: Body,
}

#[derive(Clone, Debug, PartialEq)]
pub struct PRule {
    pub name: String,
    pub params: Vec<String>,
    pub body: Body,
}

#[derive(Clone, Debug, PartialEq, Default)]
pub struct Body {
    pub lets: Vec<Let>,
    pub lines: Vec<Line>,
}

#[derive(Clone, Debug, PartialEq)]
pub struct Line {
    pub alts: Vec<Clause>,
}

#[derive(Clone, Debug, PartialEq)]
pub enum Clause {
    Cmp(Cmp),
    Ref { not: bool, name: String, msg: Option<String> },
    Block { q: Query, not_empty: bool, body: Body },
    When { cond: Vec<Line>, body: Body },
    Type { ty: String, when: Vec<Line>, body: Body },
    Call { not: bool, name: String, args: Vec<Arg>, msg: Option<String> },
}

#[derive(Clone, Copy, Debug, PartialEq, Eq, Hash)]
pub enum Op {
    Eq,
    Gt,
    Ge,
    Lt,
    Le,
    In,
    Exists,
    Empty,
    IsString,
    IsList,
    IsStruct,
    IsBool,
    IsInt,
    IsFloat,
    IsNull,
}

impl Op {
    pub fn is_unary(self) -> bool {
        !matches!(self, Op::Eq | Op::Gt | Op::Ge | Op::Lt | Op::Le | Op::In)
    }
    fn text(self, neg: bool) -> &'static str {
        match (self, neg) {
            (Op::Eq, false) => "==",
            (Op::Eq, true) => "!=",
            (Op::Gt, _) => ">",
            (Op::Ge, _) => ">=",
            (Op::Lt, _) => "<",
            (Op::Le, _) => "<=",
            (Op::In, false) => "in",
            (Op::In, true) => "!in",
            (Op::Exists, false) => "exists",
            (Op::Exists, true) => "!exists",
            (Op::Empty, false) => "empty",
            (Op::Empty, true) => "!empty",
            (Op::IsString, false) => "is_string",
            (Op::IsString, true) => "!is_string",
            (Op::IsList, false) => "is_list",
            (Op::IsList, true) => "!is_list",
            (Op::IsStruct, false) => "is_struct",
            (Op::IsStruct, true) => "!is_struct",
            (Op::IsBool, false) => "is_bool",
            (Op::IsBool, true) => "!is_bool",
            (Op::IsInt, false) => "is_int",
            (Op::IsInt, true) => "!is_int",
            (Op::IsFloat, false) => "is_float",
            (Op::IsFloat, true) => "!is_float",
            (Op::IsNull, false) => "is_null",
            (Op::IsNull, true) => "!is_null",
        }
    }
}

#[derive(Clone, Debug, PartialEq)]
pub struct Cmp {
    pub not: bool,
    pub q: Query,
    pub op: Op,
    pub opnot: bool,
    pub rhs: Option<Rhs>,
    pub msg: Option<String>,
}

#[derive(Clone, Debug, PartialEq)]
pub enum Rhs {
    Lit(J),
    /// literal text emitted verbatim (numeric extremes the document model cannot hold)
    Raw(String),
    Regex(String),
    RangeInt { lo: i64, hi: i64, lo_incl: bool, hi_incl: bool },
    Query(Query),
    Func(Func),
}

#[derive(Clone, Debug, PartialEq)]
pub struct Query {
    pub some: bool,
    pub parts: Vec<Part>,
}

#[derive(Clone, Debug, PartialEq)]
pub enum Part {
    Var(String),
    This,
    Key(String),
    Star,
    AllIdx,
    Idx(i32),
    Filter { cap: Option<String>, lines: Vec<Line> },
    KeysFilter { cap: Option<String>, opnot: bool, is_in: bool, rhs: Rhs },
}

// ---------------------------------------------------------------------------------------
// printer (canonical spelling only)
// ---------------------------------------------------------------------------------------

const RESERVED: &[&str] = &[
    "rule", "when", "let", "or", "OR", "not", "NOT", "some", "SOME", "this", "THIS", "keys", "KEYS", "in", "IN", "true", "false", "True", "False",
    "null", "NULL", "exists", "EXISTS", "empty", "EMPTY", "is_string", "is_list", "is_struct", "is_bool", "is_int", "is_float", "is_null",
];

pub fn is_ident_pub(k: &str) -> bool {
    is_ident(k)
}

fn is_ident(s: &str) -> bool {
    let mut cs = s.chars();
    match cs.next() {
        Some(c) if c.is_ascii_alphabetic() => {}
        _ => return false,
    }
    s.chars().all(|c| c.is_ascii_alphanumeric() || c == '_') && !RESERVED.contains(&s)
}

fn key_text(k: &str) -> String {
    if is_ident(k) || (k.starts_with('%') && is_ident(&k[1..])) {
        k.to_string()
    } else {
        let mut s = String::new();
        doc::to_guard_literal(&J::Str(k.to_string()), &mut s);
        s
    }
}

fn pad(n: usize, out: &mut String) {
    for _ in 0..n {
        out.push_str("  ");
    }
}

impl Query {
    pub fn print(&self, ind: usize, out: &mut String) {
        if self.some {
            out.push_str("some ");
        }
        // a query must start with a key, a variable or `this`
        // (a quoted key in first position cannot be followed by further parts either)
        let lead_this = match self.parts.first() {
            Some(Part::Var(_)) | Some(Part::This) => false,
            Some(Part::Key(k)) => !(is_ident(k) || (k.starts_with('%') && is_ident(&k[1..]))) && self.parts.len() > 1,
            _ => true,
        };
        if lead_this {
            out.push_str("this");
        }
        for (i, p) in self.parts.iter().enumerate() {
            let i = if lead_this { i + 1 } else { i };
            match p {
                Part::Var(v) => {
                    if i > 0 {
                        out.push('.');
                    }
                    out.push('%');
                    out.push_str(v);
                }
                Part::This => out.push_str("this"),
                Part::Key(k) => {
                    if i > 0 {
                        out.push('.');
                    }
                    out.push_str(&key_text(k));
                }
                Part::Star => {
                    if i > 0 {
                        out.push('.');
                    }
                    out.push('*');
                }
                Part::AllIdx => out.push_str("[*]"),
                Part::Idx(n) => out.push_str(&format!("[{}]", n)),
                Part::Filter { cap, lines } => {
                    out.push_str("[ ");
                    if let Some(c) = cap {
                        out.push_str(c);
                        out.push_str(" | ");
                    }
                    for (j, l) in lines.iter().enumerate() {
                        if j > 0 {
                            out.push('\n');
                            pad(ind + 2, out);
                        }
                        l.print_inline(ind + 2, out);
                    }
                    out.push_str(" ]");
                }
                Part::KeysFilter { cap, opnot, is_in, rhs } => {
                    out.push_str("[ ");
                    if let Some(c) = cap {
                        out.push_str(c);
                        out.push_str(" | ");
                    }
                    out.push_str("keys ");
                    out.push_str(match (is_in, opnot) {
                        (true, false) => "in",
                        (true, true) => "not in",
                        (false, false) => "==",
                        (false, true) => "!=",
                    });
                    out.push(' ');
                    rhs.print(ind, out);
                    out.push_str(" ]");
                }
            }
        }
    }
}

impl Rhs {
    fn print(&self, ind: usize, out: &mut String) {
        match self {
            Rhs::Lit(j) => doc::to_guard_literal(j, out),
            Rhs::Raw(t) => out.push_str(t),
            Rhs::Regex(r) => {
                out.push('/');
                out.push_str(&r.replace('/', "\\/"));
                out.push('/');
            }
            Rhs::RangeInt { lo, hi, lo_incl, hi_incl } => {
                out.push('r');
                out.push(if *lo_incl { '[' } else { '(' });
                out.push_str(&format!("{}, {}", lo, hi));
                out.push(if *hi_incl { ']' } else { ')' });
            }
            Rhs::Query(q) => q.print(ind, out),
            Rhs::Func(f) => f.print(ind, out),
        }
    }
}

impl Func {
    fn print(&self, ind: usize, out: &mut String) {
        out.push_str(&self.name);
        out.push('(');
        for (i, a) in self.args.iter().enumerate() {
            if i > 0 {
                out.push_str(", ");
            }
            a.print(ind, out);
        }
        out.push(')');
    }
}

impl Arg {
    fn print(&self, ind: usize, out: &mut String) {
        match self {
            Arg::Lit(j) => doc::to_guard_literal(j, out),
            Arg::Query(q) => q.print(ind, out),
            Arg::Func(f) => f.print(ind, out),
        }
    }
}

fn print_msg(msg: &Option<String>, out: &mut String) {
    if let Some(m) = msg {
        out.push_str(" <<");
        out.push_str(m);
        out.push_str(">>");
    }
}

fn print_conds(cond: &[Line], ind: usize, out: &mut String) {
    for (j, l) in cond.iter().enumerate() {
        if j > 0 {
            out.push('\n');
            pad(ind + 2, out);
        }
        l.print_inline(ind + 2, out);
    }
}

impl Clause {
    fn print(&self, ind: usize, out: &mut String) {
        match self {
            Clause::Cmp(c) => {
                if c.not {
                    out.push_str("not ");
                }
                c.q.print(ind, out);
                out.push(' ');
                out.push_str(c.op.text(c.opnot));
                if let Some(r) = &c.rhs {
                    out.push(' ');
                    r.print(ind, out);
                }
                print_msg(&c.msg, out);
            }
            Clause::Ref { not, name, msg } => {
                if *not {
                    out.push_str("not ");
                }
                out.push_str(name);
                print_msg(msg, out);
            }
            Clause::Block { q, not_empty, body } => {
                q.print(ind, out);
                if *not_empty {
                    out.push_str(" !empty");
                }
                out.push_str(" {\n");
                body.print(ind + 1, out);
                pad(ind, out);
                out.push('}');
            }
            Clause::When { cond, body } => {
                out.push_str("when ");
                print_conds(cond, ind, out);
                out.push_str(" {\n");
                body.print(ind + 1, out);
                pad(ind, out);
                out.push('}');
            }
            Clause::Type { ty, when, body } => {
                out.push_str(ty);
                if !when.is_empty() {
                    out.push_str(" when ");
                    print_conds(when, ind, out);
                }
                out.push_str(" {\n");
                body.print(ind + 1, out);
                pad(ind, out);
                out.push('}');
            }
            Clause::Call { not, name, args, msg } => {
                if *not {
                    out.push_str("not ");
                }
                out.push_str(name);
                out.push('(');
                for (i, a) in args.iter().enumerate() {
                    if i > 0 {
                        out.push_str(", ");
                    }
                    a.print(ind, out);
                }
                out.push(')');
                print_msg(msg, out);
            }
        }
    }
}

impl Line {
    fn print_inline(&self, ind: usize, out: &mut String) {
        for (i, a) in self.alts.iter().enumerate() {
            if i > 0 {
                out.push_str(" or\n");
                pad(ind + 1, out);
            }
            a.print(ind, out);
        }
    }
}

impl Let {
    fn print(&self, ind: usize, out: &mut String) {
        pad(ind, out);
        out.push_str("let ");
        out.push_str(&self.name);
        out.push_str(" = ");
        self.val.print(ind, out);
        out.push('\n');
    }
}

impl Body {
    fn print(&self, ind: usize, out: &mut String) {
        for l in &self.lets {
            l.print(ind, out);
        }
        for l in &self.lines {
            pad(ind, out);
            l.print_inline(ind, out);
            out.push('\n');
        }
    }
}

impl Prog {
    pub fn print(&self) -> String {
        let mut out = String::new();
        for l in &self.lets {
            l.print(0, &mut out);
        }
        for p in &self.prules {
            out.push_str(&format!("rule {}({}) {{\n", p.name, p.params.join(", ")));
            p.body.print(1, &mut out);
            out.push_str("}\n");
        }
        for r in &self.rules {
            out.push_str("rule ");
            out.push_str(&r.name);
            if !r.when.is_empty() {
                out.push_str(" when ");
                print_conds(&r.when, 0, &mut out);
            }
            out.push_str(" {\n");
            r.body.print(1, &mut out);
            out.push_str("}\n");
        }
        for l in &self.default_lines {
            l.print_inline(0, &mut out);
            out.push('\n');
        }
        out
    }

    pub fn uses_now(&self) -> bool {
        self.print().contains("now(")
    }
    pub fn rule_names(&self) -> Vec<String> {
        self.rules.iter().map(|r| r.name.clone()).collect()
    }
}

// ---------------------------------------------------------------------------------------
// generator
// ---------------------------------------------------------------------------------------

#[derive(Clone, Debug)]
pub struct GenOpts {
    pub max_rules: usize,
    pub max_lines: usize,
    pub max_depth: usize,
    /// allow functions (now() only when `allow_now`)
    pub functions: bool,
    pub allow_now: bool,
    /// key-capture variables in filters
    pub captures: bool,
    pub prules: bool,
    pub default_clauses: bool,
    /// include deliberately hostile shapes (C08)
    pub adversarial: bool,
    /// allow self / mutual references between rules (C08 only)
    pub cyclic: bool,
    /// every let variable is referenced at least twice, plus unused ones (C15)
    pub var_heavy: bool,
    pub rule_prefix: String,
}

impl Default for GenOpts {
    fn default() -> Self {
        GenOpts {
            max_rules: 6,
            max_lines: 5,
            max_depth: 3,
            functions: true,
            allow_now: false,
            captures: true,
            prules: true,
            default_clauses: true,
            adversarial: false,
            cyclic: false,
            var_heavy: false,
            rule_prefix: "r".into(),
        }
    }
}

#[derive(Clone, Debug)]
struct VarInfo {
    name: String,
    /// concrete document path (relative to the scope root it was defined in) the query was derived from
    origin: Option<Vec<Seg>>,
    /// kind of value: "lit", "query", "func"
    kind: &'static str,
    uses: usize,
}

struct Gen<'a> {
    r: &'a mut Rng,
    o: &'a GenOpts,
    /// names of rules that may be referenced from the rule being generated
    refs: Vec<String>,
    prules: Vec<(String, usize)>,
    var_counter: usize,
    cap_counter: usize,
    cfn: bool,
}

const MSGS: &[&str] = &["must match", "Violation: bad value", "fix é it", "check #1", "a > b"];

impl<'a> Gen<'a> {
    fn fresh_var(&mut self, prefix: &str) -> String {
        self.var_counter += 1;
        format!("{}{}", prefix, self.var_counter)
    }

    fn msg(&mut self) -> Option<String> {
        if self.r.chance(1, 6) {
            Some((*self.r.pick(MSGS)).to_string())
        } else {
            None
        }
    }

    /// Turn a concrete path into query parts, generalising some steps.
    fn parts_from_path(&mut self, root: &J, path: &[Seg], depth: usize, vars: &[VarInfo]) -> Vec<Part> {
        let mut parts = Vec::new();
        let mut cur = root;
        for (i, s) in path.iter().enumerate() {
            match s {
                Seg::Key(k) => {
                    let c = self.r.below(20);
                    if c < 2 {
                        parts.push(Part::Star);
                    } else if c < 4 {
                        // another spelling of the key: resolved through the case converters
                        let vars = doc::case_variants(k);
                        if vars.is_empty() {
                            parts.push(Part::Key(k.clone()));
                        } else {
                            parts.push(Part::Key(vars[self.r.usize(vars.len())].clone()));
                        }
                    } else {
                        parts.push(Part::Key(k.clone()));
                    }
                }
                Seg::Idx(n) => {
                    let c = self.r.below(10);
                    if c < 6 {
                        parts.push(Part::AllIdx);
                    } else if c < 8 {
                        parts.push(Part::Idx(*n as i32));
                    } else if depth > 0 {
                        // filter on the element
                        let elem = doc::at(cur, &[s.clone()]).cloned().unwrap_or(J::Null);
                        let lines = self.filter_lines(&elem, depth - 1, vars);
                        let cap = None;
                        parts.push(Part::Filter { cap, lines });
                    } else {
                        parts.push(Part::AllIdx);
                    }
                }
            }
            cur = match doc::at(cur, &path[i..i + 1]) {
                Some(c) => c,
                None => break,
            };
        }
        parts
    }

    fn filter_lines(&mut self, elem: &J, depth: usize, vars: &[VarInfo]) -> Vec<Line> {
        let n = 1 + self.r.usize(2);
        let mut lines = Vec::new();
        for _ in 0..n {
            let c = match elem {
                J::Map(kv) if !kv.is_empty() => self.cmp_clause(elem, depth, vars, false),
                _ => {
                    // scalar element: compare `this`
                    let (op, opnot, rhs) = self.op_for(Some(elem));
                    Cmp { not: false, q: Query { some: false, parts: vec![Part::This] }, op, opnot, rhs, msg: None }
                }
            };
            lines.push(Line { alts: vec![Clause::Cmp(c)] });
        }
        lines
    }

    fn literal_like(&mut self, tv: &J, same: bool) -> J {
        if same && doc::is_guard_literal_safe(tv) {
            return tv.clone();
        }
        match tv {
            J::Int(i) => J::Int(if self.r.chance(1, 2) { i.wrapping_add(1).max(i64::MIN + 1) } else { *self.r.pick(doc::INTS) }),
            J::Bool(b) => J::Bool(!b),
            J::Float(_) => J::Float(*self.r.pick(&[0.0, 0.5, 1.5, 3.14159, 100.0])),
            J::Str(_) => {
                let mut s = (*self.r.pick(doc::STRS)).to_string();
                if !doc::is_guard_literal_safe(&J::Str(s.clone())) {
                    s = "zz".into();
                }
                J::Str(s)
            }
            J::Null => {
                if same {
                    J::Null
                } else {
                    J::Int(0)
                }
            }
            J::List(_) => J::List(vec![J::Int(1), J::Str("x".into())]),
            J::Map(_) => J::Map(vec![("a".into(), J::Int(1))]),
        }
    }

    /// Choose an operator / right-hand side given what the query points at (None = unresolved).
    fn op_for(&mut self, tv: Option<&J>) -> (Op, bool, Option<Rhs>) {
        let unary = [Op::Exists, Op::Empty, Op::IsString, Op::IsList, Op::IsStruct, Op::IsBool, Op::IsInt, Op::IsFloat, Op::IsNull];
        let tv = match tv {
            None => {
                if self.r.chance(1, 2) {
                    return (*self.r.pick(&[Op::Exists, Op::Empty]), self.r.chance(1, 2), None);
                }
                return (Op::Eq, self.r.chance(1, 4), Some(Rhs::Lit(J::Int(1))));
            }
            Some(t) => t,
        };
        if self.r.chance(1, 4) {
            // unary; bias towards the one that matches the type
            let op = if self.r.chance(1, 2) {
                match tv {
                    J::Str(_) => Op::IsString,
                    J::List(_) => Op::IsList,
                    J::Map(_) => Op::IsStruct,
                    J::Bool(_) => Op::IsBool,
                    J::Int(_) => Op::IsInt,
                    J::Float(_) => Op::IsFloat,
                    J::Null => Op::IsNull,
                }
            } else {
                *self.r.pick(&unary)
            };
            return (op, self.r.chance(1, 4), None);
        }
        let same = self.r.chance(3, 5);
        match tv {
            J::Int(i) => match self.r.below(6) {
                0 | 1 => (Op::Eq, self.r.chance(1, 5), Some(Rhs::Lit(self.literal_like(tv, same)))),
                2 => {
                    let op = *self.r.pick(&[Op::Gt, Op::Ge, Op::Lt, Op::Le]);
                    (op, false, Some(Rhs::Lit(J::Int(i.saturating_add(self.r.range(-1, 1)).max(i64::MIN + 1)))))
                }
                3 => {
                    let (lo, hi) = if same { (i.saturating_sub(1).max(i64::MIN + 1), i.saturating_add(1)) } else { (i.saturating_add(1), i.saturating_add(10)) };
                    (Op::In, self.r.chance(1, 6), Some(Rhs::RangeInt { lo, hi, lo_incl: self.r.chance(1, 2), hi_incl: self.r.chance(1, 2) }))
                }
                _ => {
                    let mut xs = vec![J::Int(7), J::Str("q".into())];
                    if same {
                        xs.push(tv.clone());
                    }
                    (Op::In, self.r.chance(1, 6), Some(Rhs::Lit(J::List(xs))))
                }
            },
            J::Str(s) => match self.r.below(6) {
                0 | 1 => (Op::Eq, self.r.chance(1, 5), Some(Rhs::Lit(self.literal_like(tv, same)))),
                2 => {
                    // regex on a prefix of the string (ASCII alnum only, else a catch-all)
                    let pre: String = s.chars().take(2).filter(|c| c.is_ascii_alphanumeric()).collect();
                    let re = if same {
                        if pre.is_empty() {
                            ".*".to_string()
                        } else {
                            format!("^{}", pre)
                        }
                    } else {
                        "^zzz$".to_string()
                    };
                    (Op::Eq, self.r.chance(1, 6), Some(Rhs::Regex(re)))
                }
                3 => {
                    let op = *self.r.pick(&[Op::Gt, Op::Ge, Op::Lt, Op::Le]);
                    (op, false, Some(Rhs::Lit(self.literal_like(tv, same))))
                }
                _ => {
                    let mut xs = vec![J::Str("q".into()), J::Str("w".into())];
                    if same && doc::is_guard_literal_safe(tv) {
                        xs.push(tv.clone());
                    }
                    (Op::In, self.r.chance(1, 6), Some(Rhs::Lit(J::List(xs))))
                }
            },
            J::List(_) | J::Map(_) => match self.r.below(4) {
                0 => (Op::Empty, self.r.chance(1, 2), None),
                1 if doc::is_guard_literal_safe(tv) && doc::node_count(tv) < 8 => (Op::Eq, self.r.chance(1, 5), Some(Rhs::Lit(self.literal_like(tv, same)))),
                _ => (Op::Exists, self.r.chance(1, 5), None),
            },
            _ => (Op::Eq, self.r.chance(1, 5), Some(Rhs::Lit(self.literal_like(tv, same)))),
        }
    }

    /// pick a path in `root`; None if root has no children
    fn pick_path(&mut self, root: &J) -> Option<Vec<Seg>> {
        let ps = doc::all_paths(root);
        if ps.is_empty() {
            return None;
        }
        Some(ps[self.r.usize(ps.len())].clone())
    }

    fn query_for(&mut self, root: &J, depth: usize, vars: &[VarInfo]) -> (Query, Option<J>) {
        // via a variable?
        let qvars: Vec<&VarInfo> = vars.iter().filter(|v| v.kind == "query" && v.origin.is_some()).collect();
        if !qvars.is_empty() && self.r.chance(1, 4) {
            let v = qvars[self.r.usize(qvars.len())].clone();
            let origin = v.origin.clone().unwrap();
            // extend below the origin if possible
            // (origin is relative to the scope the variable was defined in; we only use
            // variables whose scope root is the current root or an ancestor — the caller
            // passes only those, with origin re-based or None)
            if let Some(base) = doc::at(root, &origin) {
                let ext = self.pick_path(base);
                let mut parts = vec![Part::Var(v.name.clone())];
                let mut tv = Some(base.clone());
                if let Some(ext) = ext {
                    if self.r.chance(2, 3) {
                        // lists behind a variable are flattened by the implicit [*]
                        let mut ext_parts = self.parts_from_path(base, &ext, 0, vars);
                        if let (J::List(_), Some(Part::AllIdx | Part::Idx(_) | Part::Filter { .. })) = (base, ext_parts.first()) {
                            ext_parts.remove(0);
                        }
                        parts.extend(ext_parts);
                        tv = doc::at(base, &ext).cloned();
                    }
                }
                return (Query { some: self.r.chance(1, 10), parts }, tv);
            }
        }
        let lvars: Vec<&VarInfo> = vars.iter().filter(|v| v.kind != "query").collect();
        if !lvars.is_empty() && self.r.chance(1, 8) {
            let v = lvars[self.r.usize(lvars.len())];
            return (Query { some: false, parts: vec![Part::Var(v.name.clone())] }, None);
        }
        match self.pick_path(root) {
            Some(mut p) => {
                let mut tv = doc::at(root, &p).cloned();
                // sometimes wander off the document
                if self.r.chance(1, 8) {
                    p.push(Seg::Key((*self.r.pick(&["missing", "zz", "Name"])).to_string()));
                    tv = None;
                }
                let parts = self.parts_from_path(root, &p, depth, vars);
                (Query { some: self.r.chance(1, 10), parts }, tv)
            }
            None => (Query { some: false, parts: vec![Part::Key("missing".into())] }, None),
        }
    }

    fn cmp_clause(&mut self, root: &J, depth: usize, vars: &[VarInfo], allow_not: bool) -> Cmp {
        let (q, tv) = self.query_for(root, depth, vars);
        let (op, opnot, mut rhs) = self.op_for(tv.as_ref());
        // occasionally a query / function on the right-hand side
        if rhs.is_some() && self.r.chance(1, 10) {
            let (q2, _) = self.query_for(root, 0, vars);
            rhs = Some(Rhs::Query(Query { some: false, ..q2 }));
        } else if rhs.is_some() && self.o.functions && self.r.chance(1, 25) {
            let (q2, _) = self.query_for(root, 0, vars);
            rhs = Some(Rhs::Func(Func { name: "to_upper".into(), args: vec![Arg::Query(Query { some: false, ..q2 })] }));
        }
        Cmp { not: allow_not && self.r.chance(1, 8), q, op, opnot, rhs, msg: self.msg() }
    }

    fn func(&mut self, root: &J, vars: &[VarInfo]) -> Func {
        let (q, _) = self.query_for(root, 0, vars);
        let q = Arg::Query(Query { some: false, ..q });
        let mut names = vec!["count", "to_upper", "to_lower", "join", "regex_replace", "substring", "json_parse", "url_decode", "parse_int", "parse_string", "parse_float", "parse_boolean", "parse_char", "parse_epoch"];
        if self.o.allow_now {
            names.push("now");
        }
        let name = *self.r.pick(&names);
        let args = match name {
            "join" => vec![q, Arg::Lit(J::Str(",".into()))],
            "regex_replace" => vec![q, Arg::Lit(J::Str("a".into())), Arg::Lit(J::Str("b".into()))],
            "substring" => vec![q, Arg::Lit(J::Int(self.r.range(0, 2))), Arg::Lit(J::Int(self.r.range(1, 4)))],
            "now" => vec![],
            _ => vec![q],
        };
        Func { name: name.into(), args }
    }

    fn gen_lets(&mut self, root: &J, vars: &mut Vec<VarInfo>, max: usize) -> Vec<Let> {
        let n = self.r.usize(max + 1);
        let mut out = Vec::new();
        for _ in 0..n {
            let name = self.fresh_var("v");
            let c = self.r.below(10);
            if c < 3 {
                let lit = {
                    let s = doc::gen_scalar(self.r);
                    if doc::is_guard_literal_safe(&s) {
                        s
                    } else {
                        J::Int(1)
                    }
                };
                let lit = if self.r.chance(1, 4) { J::List(vec![lit, J::Str("x".into())]) } else { lit };
                out.push(Let { name: name.clone(), val: Arg::Lit(lit) });
                vars.push(VarInfo { name, origin: None, kind: "lit", uses: 0 });
            } else if c < 8 || !self.o.functions {
                if let Some(p) = self.pick_path(root) {
                    // variables are most useful when they point at containers
                    let parts = self.parts_from_path(root, &p, 1, vars);
                    let exact = parts.iter().zip(p.iter()).all(|(pt, sg)| matches!((pt, sg), (Part::Key(a), Seg::Key(b)) if a == b));
                    // `let v = some <query>` keeps only the entries that resolve
                    let some = self.r.chance(1, 4);
                    out.push(Let { name: name.clone(), val: Arg::Query(Query { some, parts }) });
                    vars.push(VarInfo { name, origin: if exact { Some(p) } else { None }, kind: "query", uses: 0 });
                }
            } else {
                let f = self.func(root, vars);
                out.push(Let { name: name.clone(), val: Arg::Func(Box::new(f)) });
                vars.push(VarInfo { name, origin: None, kind: "func", uses: 0 });
            }
        }
        out
    }

    fn gen_line(&mut self, root: &J, depth: usize, vars: &[VarInfo], allow_ref: bool, rule_level: bool) -> Line {
        let nalts = match self.r.below(10) {
            0 | 1 => 2,
            2 => 3,
            _ => 1,
        };
        let mut alts = Vec::new();
        for _ in 0..nalts {
            let c = self.r.below(100);
            let clause = if c < 55 || depth == 0 {
                if allow_ref && !self.refs.is_empty() && self.r.chance(1, 4) {
                    let name = self.refs[self.r.usize(self.refs.len())].clone();
                    Clause::Ref { not: self.r.chance(1, 4), name, msg: if self.r.chance(1, 10) { Some("ref msg".into()) } else { None } }
                } else {
                    Clause::Cmp(self.cmp_clause(root, depth, vars, true))
                }
            } else if c < 65 && allow_ref && !self.refs.is_empty() {
                let name = self.refs[self.r.usize(self.refs.len())].clone();
                Clause::Ref { not: self.r.chance(1, 3), name, msg: None }
            } else if c < 82 {
                self.block_clause(root, depth, vars)
            } else if c < 90 {
                let cond = vec![Line { alts: vec![Clause::Cmp(self.cmp_clause(root, 0, vars, false))] }];
                let body = self.gen_body(root, depth - 1, vars, allow_ref && rule_level, false, 2);
                Clause::When { cond, body }
            } else if c < 95 && rule_level && self.cfn {
                let ty = (*self.r.pick(doc::CFN_TYPES)).to_string();
                // body relative to one resource of that type (or any resource)
                let res = resources_of(root, &ty);
                let sub = res.unwrap_or(J::Map(vec![("Properties".into(), J::Map(vec![("Name".into(), J::Str("x".into()))]))]));
                let body = self.gen_body(&sub, depth - 1, &[], false, false, 2);
                Clause::Type { ty, when: vec![], body }
            } else if c < 98 && !self.prules.is_empty() {
                let (name, np) = self.prules[self.r.usize(self.prules.len())].clone();
                let mut args = Vec::new();
                for _ in 0..np {
                    if self.r.chance(1, 2) {
                        let (q, _) = self.query_for(root, 0, vars);
                        args.push(Arg::Query(Query { some: false, ..q }));
                    } else {
                        args.push(Arg::Lit(J::Int(*self.r.pick(&[0i64, 1, 10]))));
                    }
                }
                Clause::Call { not: self.r.chance(1, 5), name, args, msg: None }
            } else {
                Clause::Cmp(self.cmp_clause(root, depth, vars, true))
            };
            alts.push(clause);
        }
        Line { alts }
    }

    fn block_clause(&mut self, root: &J, depth: usize, vars: &[VarInfo]) -> Clause {
        // pick a container node
        let ps: Vec<Vec<Seg>> = doc::all_paths(root).into_iter().filter(|p| matches!(doc::at(root, p), Some(J::Map(_)) | Some(J::List(_)))).collect();
        if ps.is_empty() {
            return Clause::Cmp(self.cmp_clause(root, depth, vars, true));
        }
        let p = ps[self.r.usize(ps.len())].clone();
        let node = doc::at(root, &p).unwrap().clone();
        let mut parts = self.parts_from_path(root, &p, depth.saturating_sub(1), vars);
        let sub = match &node {
            J::List(xs) if !xs.is_empty() => {
                if self.r.chance(1, 6) {
                    // key-capture / plain filter instead of [*]
                    let lines = self.filter_lines(&xs[0], 0, vars);
                    parts.push(Part::Filter { cap: None, lines });
                } else {
                    parts.push(Part::AllIdx);
                }
                xs[0].clone()
            }
            J::Map(kv) if !kv.is_empty() && self.r.chance(1, 3) => {
                if self.o.captures && self.r.chance(1, 3) {
                    self.cap_counter += 1;
                    let cap = format!("cap{}", self.cap_counter);
                    let lines = self.filter_lines(&kv[0].1, 0, vars);
                    parts.push(Part::Filter { cap: Some(cap), lines });
                } else if self.r.chance(1, 3) {
                    let k = kv[0].0.clone();
                    let pre: String = k.chars().take(1).filter(|c| c.is_ascii_alphanumeric()).collect();
                    parts.push(Part::KeysFilter { cap: None, opnot: self.r.chance(1, 4), is_in: false, rhs: Rhs::Regex(format!("^{}", pre)) });
                } else {
                    parts.push(Part::Star);
                }
                kv[0].1.clone()
            }
            other => other.clone(),
        };
        let body = self.gen_body(&sub, depth.saturating_sub(1), vars_rebased_none(vars).as_slice(), false, false, 3);
        Clause::Block { q: Query { some: self.r.chance(1, 10), parts }, not_empty: self.r.chance(1, 8), body }
    }

    fn gen_body(&mut self, root: &J, depth: usize, outer: &[VarInfo], allow_ref: bool, rule_level: bool, max_lines: usize) -> Body {
        let mut vars: Vec<VarInfo> = outer.to_vec();
        let lets = if self.r.chance(1, 3) { self.gen_lets(root, &mut vars, 2) } else { vec![] };
        let n = 1 + self.r.usize(max_lines.max(1));
        let mut lines = Vec::new();
        for _ in 0..n {
            lines.push(self.gen_line(root, depth, &vars, allow_ref, rule_level));
        }
        Body { lets, lines }
    }
}

/// Outer variables stay referable inside a block, but their document origin is relative to
/// a different root, so extension paths can no longer be derived: mark origin unknown.
fn vars_rebased_none(vars: &[VarInfo]) -> Vec<VarInfo> {
    vars.iter().map(|v| VarInfo { origin: None, kind: if v.kind == "query" { "func" } else { v.kind }, ..v.clone() }).collect()
}

fn resources_of(root: &J, ty: &str) -> Option<J> {
    if let Some(J::Map(res)) = doc::at(root, &[Seg::Key("Resources".into())]) {
        for (_, r) in res {
            if let Some(J::Str(t)) = doc::at(r, &[Seg::Key("Type".into())]) {
                if t == ty {
                    return Some(r.clone());
                }
            }
        }
        return res.first().map(|(_, r)| r.clone());
    }
    None
}

/// Two clauses over the same container that differ only inside their filter
/// (`P[ k == v1 ].x ..` and `P[ k == v2 ].x ..`), or two type blocks of different types.
fn paired_filter_lines(r: &mut Rng, root: &J) -> Option<Vec<Line>> {
    // containers whose elements are maps sharing a discriminating key with >= 2 distinct scalar values
    let mut cands: Vec<(Vec<Seg>, bool, String, J, J, String)> = Vec::new();
    for p in doc::all_paths(root) {
        let (elems, is_list): (Vec<&J>, bool) = match doc::at(root, &p) {
            Some(J::List(xs)) => (xs.iter().collect(), true),
            Some(J::Map(kv)) => (kv.iter().map(|(_, v)| v).collect(), false),
            _ => continue,
        };
        let maps: Vec<&Vec<(String, J)>> = elems.iter().filter_map(|e| if let J::Map(m) = e { Some(m) } else { None }).collect();
        if maps.len() < 2 {
            continue;
        }
        for (k, v1) in maps[0].iter() {
            if !matches!(v1, J::Str(_) | J::Int(_) | J::Bool(_)) || !doc::is_guard_literal_safe(v1) {
                continue;
            }
            for m in maps.iter().skip(1) {
                if let Some((_, v2)) = m.iter().find(|(kk, _)| kk == k) {
                    if v2 != v1 && matches!(v2, J::Str(_) | J::Int(_) | J::Bool(_)) && doc::is_guard_literal_safe(v2) {
                        // another key to look at
                        if let Some((x, _)) = maps[0].iter().find(|(kk, _)| kk != k) {
                            cands.push((p.clone(), is_list, k.clone(), v1.clone(), v2.clone(), x.clone()));
                        }
                    }
                }
            }
        }
    }
    if cands.is_empty() {
        return None;
    }
    let (p, _is_list, k, v1, v2, x) = cands[r.usize(cands.len())].clone();
    let base: Vec<Part> = p.iter().map(|sg| match sg { Seg::Key(k) => Part::Key(k.clone()), Seg::Idx(i) => Part::Idx(*i as i32) }).collect();
    let mk = |v: &J, r: &mut Rng| -> Line {
        let mut parts = base.clone();
        if !_is_list {
            parts.push(Part::Star);
        }
        parts.push(Part::Filter { cap: None, lines: vec![Line { alts: vec![Clause::Cmp(Cmp { not: false, q: Query { some: false, parts: vec![Part::Key(k.clone())] }, op: Op::Eq, opnot: false, rhs: Some(Rhs::Lit(v.clone())), msg: None })] }] });
        parts.push(Part::Key(x.clone()));
        let (op, opnot) = *r.pick(&[(Op::Exists, false), (Op::IsString, false), (Op::IsInt, false), (Op::Empty, true), (Op::IsStruct, true)]);
        Line { alts: vec![Clause::Cmp(Cmp { not: false, q: Query { some: false, parts }, op, opnot, rhs: None, msg: None })] }
    };
    let l1 = mk(&v1, r);
    let mut l2 = mk(&v2, r);
    // make the two clauses differ only in the filter: same operator on both
    if let (Clause::Cmp(a), Clause::Cmp(b)) = (&l1.alts[0], &mut l2.alts[0]) {
        b.op = a.op;
        b.opnot = a.opnot;
    }
    Some(vec![l1, l2])
}

pub fn gen_prog(r: &mut Rng, root: &J, o: &GenOpts) -> Prog {
    let cfn = matches!(doc::at(root, &[Seg::Key("Resources".into())]), Some(J::Map(_)));
    let mut g = Gen { r, o, refs: vec![], prules: vec![], var_counter: 0, cap_counter: 0, cfn };
    let mut vars: Vec<VarInfo> = Vec::new();
    let lets = g.gen_lets(root, &mut vars, 3);
    let mut prules = Vec::new();
    if o.prules && g.r.chance(1, 4) {
        let np = 1 + g.r.usize(2);
        let params: Vec<String> = (0..np).map(|i| format!("p{}", i + 1)).collect();
        // body compares the parameters
        let mut lines = Vec::new();
        for p in &params {
            let (op, opnot, rhs) = g.op_for(Some(&J::Int(1)));
            lines.push(Line { alts: vec![Clause::Cmp(Cmp { not: false, q: Query { some: false, parts: vec![Part::Var(p.clone())] }, op, opnot, rhs, msg: None })] });
        }
        let name = format!("{}chk", o.rule_prefix);
        g.prules.push((name.clone(), np));
        prules.push(PRule { name, params, body: Body { lets: vec![], lines } });
    }
    let nrules = 1 + g.r.usize(o.max_rules.max(1));
    let names: Vec<String> = (1..=nrules).map(|i| format!("{}{}", o.rule_prefix, i)).collect();
    let mut rules = Vec::new();
    for i in 0..nrules {
        // acyclic by construction: a rule may reference only lower-numbered rules
        g.refs = if o.cyclic { names.clone() } else { names[..i].to_vec() };
        let when = if g.r.chance(1, 3) {
            let mut w = Vec::new();
            let n = 1 + g.r.usize(2);
            for _ in 0..n {
                if !g.refs.is_empty() && g.r.chance(1, 2) {
                    let name = g.refs[g.r.usize(g.refs.len())].clone();
                    w.push(Line { alts: vec![Clause::Ref { not: g.r.chance(1, 3), name, msg: None }] });
                } else {
                    w.push(Line { alts: vec![Clause::Cmp(g.cmp_clause(root, 0, &vars, false))] });
                }
            }
            w
        } else {
            vec![]
        };
        let mut body = g.gen_body(root, o.max_depth, &vars, true, true, o.max_lines);
        // two clauses that differ only inside a filter
        if g.r.chance(1, 4) {
            if let Some(ls) = paired_filter_lines(g.r, root) {
                for l in ls {
                    let at = g.r.usize(body.lines.len() + 1);
                    body.lines.insert(at, l);
                }
            }
        }
        // two type blocks of different types in one rule
        if cfn && g.r.chance(1, 5) {
            let mut tys: Vec<&str> = doc::CFN_TYPES.to_vec();
            g.r.shuffle(&mut tys);
            for ty in tys.iter().take(2) {
                let (op, opnot) = *g.r.pick(&[(Op::Exists, false), (Op::Exists, true), (Op::IsStruct, false)]);
                let tb = Clause::Type { ty: (*ty).to_string(), when: vec![], body: Body { lets: vec![], lines: vec![Line { alts: vec![Clause::Cmp(Cmp { not: false, q: Query { some: false, parts: vec![Part::Key("Properties".into())] }, op, opnot, rhs: None, msg: None })] }] } };
                body.lines.push(Line { alts: vec![tb] });
            }
        }
        // two long lists in the document: compare them element-wise (query == query)
        if matches!(doc::at(root, &[Seg::Key("long_a".into())]), Some(J::List(_))) && g.r.chance(1, 2) {
            let (l, rr) = if g.r.chance(1, 2) { ("long_a", "long_b") } else { ("long_b", "long_a") };
            let c = Cmp { not: false, q: Query { some: g.r.chance(1, 4), parts: vec![Part::Key(l.into()), Part::AllIdx] }, op: *g.r.pick(&[Op::Eq, Op::Eq, Op::In]), opnot: g.r.chance(1, 4), rhs: Some(Rhs::Query(Query { some: false, parts: vec![Part::Key(rr.into()), Part::AllIdx] })), msg: None };
            let at = g.r.usize(body.lines.len() + 1);
            body.lines.insert(at, Line { alts: vec![Clause::Cmp(c)] });
        }
        rules.push(Rule { name: names[i].clone(), when, body });
    }
    // timestamps in the document: parse them and compare with a fixed instant
    if o.functions {
        let stamps: Vec<Vec<Seg>> = doc::all_paths(root)
            .into_iter()
            .filter(|p| matches!(doc::at(root, p), Some(J::Str(s)) if s.len() >= 10 && s.as_bytes()[4] == b'-' && s.as_bytes()[7] == b'-' && s[..4].chars().all(|c| c.is_ascii_digit())))
            .collect();
        if !stamps.is_empty() && g.r.chance(1, 4) {
            let p = stamps[g.r.usize(stamps.len())].clone();
            let parts: Vec<Part> = p.iter().map(|sg| match sg { Seg::Key(k) => Part::Key(k.clone()), Seg::Idx(i) => Part::Idx(*i as i32) }).collect();
            let threshold = *g.r.pick(&[1_704_067_200i64, 1_724_198_400, 1_724_230_800, 1_724_166_000, 0]);
            let op = *g.r.pick(&[Op::Ge, Op::Lt, Op::Eq]);
            let body = Body {
                lets: vec![Let { name: "ts".into(), val: Arg::Func(Box::new(Func { name: "parse_epoch".into(), args: vec![Arg::Query(Query { some: false, parts })] })) }],
                lines: vec![Line { alts: vec![Clause::Cmp(Cmp { not: false, q: Query { some: false, parts: vec![Part::Var("ts".into())] }, op, opnot: false, rhs: Some(Rhs::Lit(J::Int(threshold))), msg: None })] }],
            };
            rules.push(Rule { name: format!("{}ts", o.rule_prefix), when: vec![], body });
        }
    }
    let mut default_lines = Vec::new();
    if o.default_clauses && g.r.chance(1, 6) {
        g.refs = vec![];
        default_lines.push(Line { alts: vec![Clause::Cmp(g.cmp_clause(root, 1, &vars, false))] });
    }
    let mut p = Prog { lets, prules, rules, default_lines };
    if o.adversarial {
        add_adversarial(g.r, &mut p, root);
    }
    p
}

/// Hostile but grammatical shapes the property lists explicitly.
fn add_adversarial(r: &mut Rng, p: &mut Prog, root: &J) {
    // top-level keys of the document that hold a list / a string (extreme indices and
    // conversions are only reached on values of the right type)
    let keys_of = |want_list: bool| -> Vec<String> {
        match root {
            J::Map(kv) => kv.iter().filter(|(k, v)| is_ident(k) && if want_list { matches!(v, J::List(_)) } else { matches!(v, J::Str(_)) }).map(|(k, _)| k.clone()).collect(),
            _ => vec![],
        }
    };
    let (list_keys, str_keys) = (keys_of(true), keys_of(false));
    let n = 1 + r.usize(3);
    for _ in 0..n {
        let k = r.below(20);
        let name = format!("adv{}", p.rules.len() + 1);
        let q = |parts: Vec<Part>| Query { some: false, parts };
        let var = |v: &str| Part::Var(v.to_string());
        let mut lets = Vec::new();
        let mut lines = Vec::new();
        match k {
            0 => {
                // literal left-hand side via a variable
                lets.push(Let { name: "lit".into(), val: Arg::Lit(J::Str("é😀z".into())) });
                lines.push(Line { alts: vec![Clause::Cmp(Cmp { not: false, q: q(vec![var("lit")]), op: Op::Eq, opnot: false, rhs: Some(Rhs::Lit(J::Int(1))), msg: None })] });
                lines.push(Line { alts: vec![Clause::Cmp(Cmp { not: false, q: q(vec![var("lit")]), op: Op::Empty, opnot: r.chance(1, 2), rhs: None, msg: None })] });
            }
            1 => {
                // type-mismatched function arguments
                let f = *r.pick(&["parse_int", "parse_float", "parse_boolean", "parse_char", "parse_epoch", "json_parse", "url_decode", "to_upper", "count"]);
                let arg = match r.below(7) {
                    0 => Arg::Lit(J::List(vec![J::Int(1), J::Null])),
                    1 => Arg::Lit(J::Map(vec![("a".into(), J::Int(1))])),
                    2 => Arg::Lit(J::Str("not a number é".into())),
                    // the empty string, a single multi-byte character
                    3 => Arg::Lit(J::Str(String::new())),
                    4 => Arg::Lit(J::Str("é".into())),
                    // a string of the document
                    5 if !str_keys.is_empty() => Arg::Query(q(vec![Part::Key(str_keys[r.usize(str_keys.len())].clone())])),
                    _ => Arg::Query(q(vec![Part::Key("a".into())])),
                };
                lets.push(Let { name: "fx".into(), val: Arg::Func(Box::new(Func { name: f.into(), args: vec![arg] })) });
                lines.push(Line { alts: vec![Clause::Cmp(Cmp { not: false, q: q(vec![var("fx")]), op: Op::Exists, opnot: false, rhs: None, msg: None })] });
            }
            2 => {
                // substring bounds inside multi-byte characters / out of range / negative
                let s = *r.pick(&["aé😀z", "日本語", "é", "", "abc"]);
                let (i, j) = *r.pick(&[(0i64, 1i64), (1, 2), (1, 3), (2, 1), (0, 100), (-1, 2), (3, 3), (i64::MAX, i64::MIN + 1)]);
                lets.push(Let { name: "s".into(), val: Arg::Lit(J::Str(s.into())) });
                lets.push(Let { name: "sub".into(), val: Arg::Func(Box::new(Func { name: "substring".into(), args: vec![Arg::Query(q(vec![var("s")])), Arg::Lit(J::Int(i)), Arg::Lit(J::Int(j))] })) });
                lines.push(Line { alts: vec![Clause::Cmp(Cmp { not: false, q: q(vec![var("sub")]), op: Op::Eq, opnot: false, rhs: Some(Rhs::Lit(J::Str("x".into()))), msg: None })] });
            }
            3 => {
                // extreme indices
                // (also the first few positions: one of them is the length of a short list)
                let idx = *r.pick(&[i32::MIN, i32::MAX, -1, -2, 1000000, 0, 1, 2, 3, 4, -3]);
                let mut key = (*r.pick(doc::KEYS)).to_string();
                if !list_keys.is_empty() && r.chance(2, 3) {
                    // a key that really holds a list
                    key = list_keys[r.usize(list_keys.len())].clone();
                }
                if r.chance(1, 3) {
                    // ... on the values of an interpolated variable: `<map>.%ks[n]`
                    let k2 = (*r.pick(doc::KEYS)).to_string();
                    lets.push(Let { name: "ks".into(), val: Arg::Lit(J::List(vec![J::Str(k2), J::Str("zz".into())])) });
                    lines.push(Line { alts: vec![Clause::Cmp(Cmp { not: false, q: q(vec![Part::Key(key), var("ks"), Part::Idx(idx)]), op: Op::Exists, opnot: r.chance(1, 2), rhs: None, msg: None })] });
                } else {
                    lines.push(Line { alts: vec![Clause::Cmp(Cmp { not: false, q: q(vec![Part::Key(key), Part::Idx(idx)]), op: Op::Exists, opnot: r.chance(1, 2), rhs: None, msg: None })] });
                }
            }
            4 => {
                // chained filters
                let key = (*r.pick(doc::KEYS)).to_string();
                let f1 = Part::Filter { cap: None, lines: vec![Line { alts: vec![Clause::Cmp(Cmp { not: false, q: q(vec![Part::This]), op: Op::Exists, opnot: false, rhs: None, msg: None })] }] };
                let f2 = Part::Filter { cap: None, lines: vec![Line { alts: vec![Clause::Cmp(Cmp { not: false, q: q(vec![Part::Key("a".into())]), op: Op::Exists, opnot: r.chance(1, 2), rhs: None, msg: None })] }] };
                lines.push(Line { alts: vec![Clause::Cmp(Cmp { not: false, q: q(vec![Part::Key(key), f1, f2, Part::AllIdx]), op: Op::Empty, opnot: r.chance(1, 2), rhs: None, msg: None })] });
            }
            5 => {
                // unary checks on literal variables of every type
                let lit = match r.below(5) {
                    0 => J::List(vec![]),
                    1 => J::Map(vec![]),
                    2 => J::Null,
                    3 => J::Float(1.5),
                    _ => J::Bool(true),
                };
                lets.push(Let { name: "lv".into(), val: Arg::Lit(lit) });
                for op in [Op::Empty, Op::Exists, Op::IsList, Op::IsStruct, Op::IsNull] {
                    lines.push(Line { alts: vec![Clause::Cmp(Cmp { not: r.chance(1, 3), q: q(vec![var("lv")]), op, opnot: r.chance(1, 2), rhs: None, msg: None })] });
                }
            }
            6 => {
                // comparisons across types and with ranges / regex on non-strings
                let key = (*r.pick(doc::KEYS)).to_string();
                let rhs = match r.below(4) {
                    0 => Rhs::Regex("(a|b)*c".into()),
                    1 => Rhs::RangeInt { lo: 10, hi: 0, lo_incl: true, hi_incl: false },
                    2 => Rhs::Lit(J::Map(vec![("a".into(), J::List(vec![]))])),
                    _ => Rhs::Lit(J::List(vec![J::List(vec![J::Null])])),
                };
                let op = *r.pick(&[Op::Eq, Op::Gt, Op::Le, Op::In]);
                lines.push(Line { alts: vec![Clause::Cmp(Cmp { not: r.chance(1, 2), q: q(vec![Part::Key(key.clone()), Part::Star]), op, opnot: r.chance(1, 2), rhs: Some(rhs), msg: None })] });
                // an empty list on the right-hand side, a list-valued left-hand side
                lines.push(Line { alts: vec![Clause::Cmp(Cmp { not: false, q: q(vec![Part::Key(key.clone())]), op: *r.pick(&[Op::In, Op::Eq]), opnot: r.chance(1, 2), rhs: Some(Rhs::Raw("[]".into())), msg: None })] });
                lets.push(Let { name: "el".into(), val: Arg::Lit(J::List(vec![J::Int(1), J::Int(2)])) });
                lines.push(Line { alts: vec![Clause::Cmp(Cmp { not: false, q: q(vec![var("el")]), op: Op::In, opnot: r.chance(1, 2), rhs: Some(Rhs::Raw("[]".into())), msg: None })] });
            }
            7 => {
                // reference to a rule that does not exist
                lines.push(Line { alts: vec![Clause::Ref { not: r.chance(1, 2), name: "no_such_rule".into(), msg: None }] });
            }
            8 => {
                // variable that does not exist / variable used as key
                lines.push(Line { alts: vec![Clause::Cmp(Cmp { not: false, q: q(vec![var("nope"), Part::Key("a".into())]), op: Op::Exists, opnot: false, rhs: None, msg: None })] });
            }
            9 => {
                // join / count / regex_replace on odd inputs
                lets.push(Let { name: "j".into(), val: Arg::Func(Box::new(Func { name: "join".into(), args: vec![Arg::Query(q(vec![Part::Key((*r.pick(doc::KEYS)).to_string()), Part::Star])), Arg::Lit(J::Str("é".into()))] })) });
                lets.push(Let { name: "rr".into(), val: Arg::Func(Box::new(Func { name: "regex_replace".into(), args: vec![Arg::Query(q(vec![var("j")])), Arg::Lit(J::Str("(".into())), Arg::Lit(J::Str("$9${x}".into()))] })) });
                lines.push(Line { alts: vec![Clause::Cmp(Cmp { not: false, q: q(vec![var("rr")]), op: Op::Exists, opnot: false, rhs: None, msg: None })] });
            }
            10 => {
                // key interpolation with a variable holding non-strings
                lets.push(Let { name: "ks".into(), val: Arg::Lit(J::List(vec![J::Int(1), J::Str("a".into()), J::Null])) });
                lines.push(Line { alts: vec![Clause::Cmp(Cmp { not: false, q: q(vec![Part::Key((*r.pick(doc::KEYS)).to_string()), Part::Key("%ks".into())]), op: Op::Exists, opnot: false, rhs: None, msg: None })] });
            }
            12 => {
                // a function whose 2nd / 3rd argument is a query or variable that selects nothing
                let key = (*r.pick(doc::KEYS)).to_string();
                let empty_q = match r.below(3) {
                    0 => q(vec![Part::Key(key.clone()), Part::Filter { cap: None, lines: vec![Line { alts: vec![Clause::Cmp(Cmp { not: false, q: q(vec![Part::Key("zz_no".into())]), op: Op::Eq, opnot: false, rhs: Some(Rhs::Lit(J::Int(1))), msg: None })] }] }]),
                    1 => q(vec![Part::Key("zz_missing".into())]),
                    _ => q(vec![Part::This, Part::Star, Part::Filter { cap: None, lines: vec![Line { alts: vec![Clause::Cmp(Cmp { not: false, q: q(vec![Part::This]), op: Op::IsNull, opnot: false, rhs: None, msg: None })] }] }]),
                };
                lets.push(Let { name: "e".into(), val: Arg::Query(empty_q.clone()) });
                lets.push(Let { name: "l".into(), val: Arg::Query(q(vec![Part::Key(key), Part::Star])) });
                let e = if r.chance(1, 2) { Arg::Query(q(vec![var("e")])) } else { Arg::Query(empty_q) };
                let l = Arg::Query(q(vec![var("l")]));
                let f = match r.below(5) {
                    0 => Func { name: "join".into(), args: vec![l, e] },
                    1 => Func { name: "regex_replace".into(), args: vec![l, e, Arg::Lit(J::Str("b".into()))] },
                    2 => Func { name: "regex_replace".into(), args: vec![l, Arg::Lit(J::Str("a".into())), e] },
                    3 => Func { name: "substring".into(), args: vec![l, e, Arg::Lit(J::Int(2))] },
                    _ => Func { name: "substring".into(), args: vec![l, Arg::Lit(J::Int(0)), e] },
                };
                lets.push(Let { name: "fe".into(), val: Arg::Func(Box::new(f)) });
                lines.push(Line { alts: vec![Clause::Cmp(Cmp { not: false, q: q(vec![var("fe")]), op: Op::Exists, opnot: r.chance(1, 2), rhs: None, msg: None })] });
            }
            19 => {
                // every function with a FIRST argument that selects nothing: an EMPTY list (a
                // filter no element passes), which is not the same as an unresolved value
                let container = match root {
                    J::Map(kv) => kv.iter().find_map(|(k, v)| match v {
                        J::Map(m) if !m.is_empty() && m.iter().all(|(_, x)| matches!(x, J::Map(_))) => Some((k.clone(), true)),
                        J::List(l) if !l.is_empty() && l.iter().all(|x| matches!(x, J::Map(_))) => Some((k.clone(), false)),
                        _ => None,
                    }),
                    _ => None,
                };
                let never = Part::Filter { cap: None, lines: vec![Line { alts: vec![Clause::Cmp(Cmp { not: false, q: q(vec![Part::Key("zz_no".into())]), op: Op::Eq, opnot: false, rhs: Some(Rhs::Lit(J::Str("zz never".into()))), msg: None })] }] };
                let empty_q = match container {
                    Some((k, true)) => q(vec![Part::Key(k), Part::Star, never, Part::Key("zz_prop".into())]),
                    Some((k, false)) => q(vec![Part::Key(k), never, Part::Key("zz_prop".into())]),
                    None => q(vec![Part::This, Part::Star, never]),
                };
                lets.push(Let { name: "e".into(), val: Arg::Query(empty_q) });
                let e1 = Arg::Query(q(vec![var("e")]));
                let f1 = match r.below(8) {
                    0 => Func { name: "join".into(), args: vec![e1, Arg::Lit(J::Str(",".into()))] },
                    1 => Func { name: "count".into(), args: vec![e1] },
                    2 => Func { name: "regex_replace".into(), args: vec![e1, Arg::Lit(J::Str("a".into())), Arg::Lit(J::Str("b".into()))] },
                    3 => Func { name: "substring".into(), args: vec![e1, Arg::Lit(J::Int(0)), Arg::Lit(J::Int(1))] },
                    4 => Func { name: "to_upper".into(), args: vec![e1] },
                    5 => Func { name: "json_parse".into(), args: vec![e1] },
                    6 => Func { name: "parse_int".into(), args: vec![e1] },
                    _ => Func { name: "url_decode".into(), args: vec![e1] },
                };
                lets.push(Let { name: "fe1".into(), val: Arg::Func(Box::new(f1)) });
                lines.push(Line { alts: vec![Clause::Cmp(Cmp { not: false, q: q(vec![var("fe1")]), op: Op::Exists, opnot: r.chance(1, 2), rhs: None, msg: None })] });
            }
            13 => {
                // a parameterised rule that calls itself (directly or through another)
                let mutual = r.chance(1, 2);
                let call = |n: &str| Clause::Call { not: false, name: n.to_string(), args: vec![Arg::Query(q(vec![var("x")]))], msg: None };
                if mutual {
                    p.prules.push(PRule { name: "rec_a".into(), params: vec!["x".into()], body: Body { lets: vec![], lines: vec![Line { alts: vec![call("rec_b")] }] } });
                    p.prules.push(PRule { name: "rec_b".into(), params: vec!["x".into()], body: Body { lets: vec![], lines: vec![Line { alts: vec![call("rec_a")] }] } });
                } else if !p.prules.iter().any(|x| x.name == "rec_a") {
                    p.prules.push(PRule { name: "rec_a".into(), params: vec!["x".into()], body: Body { lets: vec![], lines: vec![Line { alts: vec![call("rec_a")] }] } });
                }
                lines.push(Line { alts: vec![Clause::Call { not: r.chance(1, 3), name: "rec_a".into(), args: vec![Arg::Lit(J::Int(1))], msg: None }] });
            }
            14 => {
                // blank / degenerate custom messages on clauses that fail
                let m = (*r.pick(&[" ; ", "", " ", ";", ";;", " \t ", "\n"])).to_string();
                let key = (*r.pick(doc::KEYS)).to_string();
                if matches!(doc::at(root, &[Seg::Key("Resources".into())]), Some(J::Map(_))) {
                    // on a template the failing clause is shown by the resource-aware console reporter
                    lines.push(Line { alts: vec![Clause::Cmp(Cmp { not: false, q: q(vec![Part::Key("Resources".into()), Part::Star, Part::Key("Type".into())]), op: Op::Eq, opnot: false, rhs: Some(Rhs::Lit(J::Str("zz never".into()))), msg: Some(m.clone()) })] });
                    lines.push(Line { alts: vec![Clause::Cmp(Cmp { not: false, q: q(vec![Part::Key("Resources".into()), Part::Star, Part::Key("Properties".into()), Part::Key("ZzNo".into())]), op: Op::Exists, opnot: false, rhs: None, msg: Some(m.clone()) })] });
                }
                lines.push(Line { alts: vec![Clause::Cmp(Cmp { not: false, q: q(vec![Part::Key(key.clone())]), op: Op::Eq, opnot: false, rhs: Some(Rhs::Lit(J::Str("zz never".into()))), msg: Some(m.clone()) })] });
                lines.push(Line { alts: vec![Clause::Cmp(Cmp { not: false, q: q(vec![Part::Key(key), Part::Key("zz".into())]), op: Op::Exists, opnot: false, rhs: None, msg: Some(m) })] });
            }
            15 => {
                // regular expressions that need the backtracking engine, on a long subject
                let re = (*r.pick(&["(?=a)(a|aa)+$", "(a+)+$", "(a*)*b", "(\\w+)\\1{9}", "^(a|a?)+$", "(?<!x)(x+x+)+y"])).to_string();
                lets.push(Let { name: "subj".into(), val: Arg::Lit(J::Str(format!("{}!", "a".repeat(40 + r.usize(40))))) });
                lines.push(Line { alts: vec![Clause::Cmp(Cmp { not: r.chance(1, 3), q: q(vec![var("subj")]), op: Op::Eq, opnot: r.chance(1, 3), rhs: Some(Rhs::Regex(re.clone())), msg: None })] });
                if r.chance(1, 2) {
                    // ... and as members of a list: `in [ /../, /../ ]` compares through another path
                    lines.push(Line { alts: vec![Clause::Cmp(Cmp { not: r.chance(1, 3), q: q(vec![var("subj")]), op: Op::In, opnot: r.chance(1, 3), rhs: Some(Rhs::Raw(format!("[/{}/, /b/]", re))), msg: None })] });
                }
                lets.push(Let { name: "rx".into(), val: Arg::Func(Box::new(Func { name: "regex_replace".into(), args: vec![Arg::Query(q(vec![var("subj")])), Arg::Lit(J::Str(if r.chance(1, 2) { "(a+)+$".to_string() } else { re.clone() })), Arg::Lit(J::Str("$1$1".into()))] })) });
                lines.push(Line { alts: vec![Clause::Cmp(Cmp { not: false, q: q(vec![var("rx")]), op: Op::Exists, opnot: false, rhs: None, msg: None })] });
            }
            17 => {
                // numeric literals at and beyond the edges of i64 / f64
                let lit = (*r.pick(&["1e+999", "1e+309", "9.9e+400", "1e-999", "9223372036854775807", "0.1e+1", "1.7976931348623157e+308", "123456789.123456789e+300"])).to_string();
                let key = (*r.pick(doc::KEYS)).to_string();
                let op = *r.pick(&[Op::Eq, Op::Gt, Op::Le, Op::In]);
                if op == Op::In {
                    lines.push(Line { alts: vec![Clause::Cmp(Cmp { not: false, q: q(vec![Part::Key(key)]), op, opnot: false, rhs: Some(Rhs::Raw(format!("[{lit}, 1]"))), msg: None })] });
                } else {
                    lines.push(Line { alts: vec![Clause::Cmp(Cmp { not: false, q: q(vec![Part::Key(key)]), op, opnot: false, rhs: Some(Rhs::Raw(lit)), msg: None })] });
                }
            }
            16 => {
                // a variable defined in terms of itself (directly, mutually, or through a function)
                match r.below(3) {
                    0 => lets.push(Let { name: "cy".into(), val: Arg::Query(q(vec![var("cy")])) }),
                    1 => {
                        lets.push(Let { name: "cy".into(), val: Arg::Query(q(vec![var("cz"), Part::Key("a".into())])) });
                        lets.push(Let { name: "cz".into(), val: Arg::Query(q(vec![var("cy")])) });
                    }
                    _ => lets.push(Let { name: "cy".into(), val: Arg::Func(Box::new(Func { name: "count".into(), args: vec![Arg::Query(q(vec![var("cy")]))] })) }),
                }
                lines.push(Line { alts: vec![Clause::Cmp(Cmp { not: false, q: q(vec![var("cy")]), op: Op::Eq, opnot: false, rhs: Some(Rhs::Lit(J::Int(1))), msg: None })] });
            }
            _ => {
                // some + not + empty on nested star paths
                lines.push(Line { alts: vec![Clause::Cmp(Cmp { not: true, q: Query { some: true, parts: vec![Part::Star, Part::Star, Part::AllIdx, Part::Star] }, op: Op::Empty, opnot: true, rhs: None, msg: Some("é".into()) })] });
            }
        }
        p.rules.push(Rule { name, when: vec![], body: Body { lets, lines } });
    }
}

// ---------------------------------------------------------------------------------------
// shrinking
// ---------------------------------------------------------------------------------------

fn shrink_lines(lines: &[Line], allow_empty: bool) -> Vec<Vec<Line>> {
    let mut out = Vec::new();
    for i in 0..lines.len() {
        if lines.len() > 1 || allow_empty {
            let mut l2 = lines.to_vec();
            l2.remove(i);
            out.push(l2);
        }
    }
    for i in 0..lines.len() {
        let l = &lines[i];
        if l.alts.len() > 1 {
            for j in 0..l.alts.len() {
                let mut a2 = l.alts.clone();
                a2.remove(j);
                let mut l2 = lines.to_vec();
                l2[i] = Line { alts: a2 };
                out.push(l2);
            }
        }
        for j in 0..l.alts.len() {
            for c in shrink_clause(&l.alts[j]) {
                let mut l2 = lines.to_vec();
                l2[i].alts[j] = c;
                out.push(l2);
            }
        }
    }
    out
}

fn shrink_body(b: &Body) -> Vec<Body> {
    let mut out = Vec::new();
    for i in 0..b.lets.len() {
        let mut l2 = b.lets.clone();
        l2.remove(i);
        out.push(Body { lets: l2, lines: b.lines.clone() });
    }
    for l in shrink_lines(&b.lines, false) {
        out.push(Body { lets: b.lets.clone(), lines: l });
    }
    out
}

fn shrink_query(q: &Query) -> Vec<Query> {
    let mut out = Vec::new();
    if q.some {
        out.push(Query { some: false, parts: q.parts.clone() });
    }
    if q.parts.len() > 1 {
        for i in 1..q.parts.len() {
            let mut p2 = q.parts.clone();
            p2.remove(i);
            out.push(Query { some: q.some, parts: p2 });
        }
    }
    for (i, p) in q.parts.iter().enumerate() {
        if let Part::Filter { cap, lines } = p {
            for l in shrink_lines(lines, false) {
                let mut p2 = q.parts.clone();
                p2[i] = Part::Filter { cap: cap.clone(), lines: l };
                out.push(Query { some: q.some, parts: p2 });
            }
            let mut p2 = q.parts.clone();
            p2[i] = Part::AllIdx;
            out.push(Query { some: q.some, parts: p2 });
        }
    }
    out
}

fn shrink_clause(c: &Clause) -> Vec<Clause> {
    let mut out = Vec::new();
    match c {
        Clause::Cmp(cm) => {
            if cm.not {
                out.push(Clause::Cmp(Cmp { not: false, ..cm.clone() }));
            }
            if cm.msg.is_some() {
                out.push(Clause::Cmp(Cmp { msg: None, ..cm.clone() }));
            }
            for q in shrink_query(&cm.q) {
                out.push(Clause::Cmp(Cmp { q, ..cm.clone() }));
            }
            if let Some(Rhs::Query(_)) | Some(Rhs::Func(_)) = &cm.rhs {
                out.push(Clause::Cmp(Cmp { rhs: Some(Rhs::Lit(J::Int(1))), ..cm.clone() }));
            }
            if let Some(Rhs::Lit(j)) = &cm.rhs {
                for s in doc::shrinks(j) {
                    out.push(Clause::Cmp(Cmp { rhs: Some(Rhs::Lit(s)), ..cm.clone() }));
                }
            }
        }
        Clause::Ref { not, name, msg } => {
            if *not {
                out.push(Clause::Ref { not: false, name: name.clone(), msg: msg.clone() });
            }
            if msg.is_some() {
                out.push(Clause::Ref { not: *not, name: name.clone(), msg: None });
            }
        }
        Clause::Block { q, not_empty, body } => {
            for l in &body.lines {
                if l.alts.len() == 1 && matches!(l.alts[0], Clause::Cmp(_)) {
                    // hoisting is not meaning-preserving, but shrinking only needs "still fails"
                }
            }
            for b in shrink_body(body) {
                out.push(Clause::Block { q: q.clone(), not_empty: *not_empty, body: b });
            }
            for q2 in shrink_query(q) {
                out.push(Clause::Block { q: q2, not_empty: *not_empty, body: body.clone() });
            }
            if *not_empty {
                out.push(Clause::Block { q: q.clone(), not_empty: false, body: body.clone() });
            }
        }
        Clause::When { cond, body } => {
            for b in shrink_body(body) {
                out.push(Clause::When { cond: cond.clone(), body: b });
            }
            for c2 in shrink_lines(cond, false) {
                out.push(Clause::When { cond: c2, body: body.clone() });
            }
        }
        Clause::Type { ty, when, body } => {
            for b in shrink_body(body) {
                out.push(Clause::Type { ty: ty.clone(), when: when.clone(), body: b });
            }
            for w in shrink_lines(when, true) {
                out.push(Clause::Type { ty: ty.clone(), when: w, body: body.clone() });
            }
        }
        Clause::Call { not, name, args, msg } => {
            if *not {
                out.push(Clause::Call { not: false, name: name.clone(), args: args.clone(), msg: msg.clone() });
            }
        }
    }
    out
}

/// One-step smaller programs, biggest cuts first.
pub fn shrinks(p: &Prog) -> Vec<Prog> {
    let mut out = Vec::new();
    for i in 0..p.rules.len() {
        if p.rules.len() + p.default_lines.len() > 1 {
            let mut r2 = p.rules.clone();
            r2.remove(i);
            out.push(Prog { rules: r2, ..p.clone() });
        }
    }
    for i in 0..p.prules.len() {
        let mut r2 = p.prules.clone();
        r2.remove(i);
        out.push(Prog { prules: r2, ..p.clone() });
    }
    if !p.default_lines.is_empty() && !p.rules.is_empty() {
        out.push(Prog { default_lines: vec![], ..p.clone() });
    }
    for i in 0..p.lets.len() {
        let mut l2 = p.lets.clone();
        l2.remove(i);
        out.push(Prog { lets: l2, ..p.clone() });
    }
    for i in 0..p.rules.len() {
        let r = &p.rules[i];
        if !r.when.is_empty() {
            let mut r2 = p.rules.clone();
            r2[i].when = vec![];
            out.push(Prog { rules: r2, ..p.clone() });
            for w in shrink_lines(&r.when, false) {
                let mut r2 = p.rules.clone();
                r2[i].when = w;
                out.push(Prog { rules: r2, ..p.clone() });
            }
        }
        for b in shrink_body(&r.body) {
            let mut r2 = p.rules.clone();
            r2[i].body = b;
            out.push(Prog { rules: r2, ..p.clone() });
        }
    }
    out
}
