//! C06 (partial) — the single exit code is the documented fold of the per-file outcomes,
//! for every order in which files are delivered and under read faults, in every mode.
//! Whether each individual outcome is right is C01 and is not decided here: items are
//! classified by observing them alone in a pristine process, and a 15-line reference
//! model folds those observations.

use crate::c05::{files_from_json, files_to_json, outcome_class};
use crate::c12::parse_json_stream;
use crate::doc::{self, DocFmt};
use crate::exec::{FileSpec, Work};
use crate::framework::*;
use crate::prng::{derive, Rng};
use crate::proto::*;
use crate::rules::GenOpts;
use crate::workload::*;
use serde_json::{json, Value};
use std::collections::BTreeMap;

pub struct C06;

#[derive(Clone, Debug)]
pub struct Dlv {
    pub kind: String,
    pub argv: Vec<String>,
    pub stdin: Option<String>,
    pub dir_mode: String,
    pub dir_seed: u64,
    pub faults: FaultSpec,
    pub extra: Vec<FileSpec>,
    /// relative paths named on the command line that do not exist
    pub missing: Vec<String>,
    /// which rules / data items take part (indices), for payload / stdin deliveries
    pub rules_idx: Vec<usize>,
    pub data_idx: Vec<usize>,
}

#[derive(Clone, Debug)]
pub struct Scn6 {
    pub files: Vec<FileSpec>,
    pub rules: Vec<String>,
    pub data: Vec<String>,
    pub cases: Vec<TestCase>,
    /// test-file items: (rel path, case indices or None = broken/unreadable file)
    pub test_files: Vec<(String, Option<Vec<usize>>)>,
}

fn step(argv: &[String], stdin: &Option<String>, root: &str) -> Step {
    let sub = |s: &String| -> String {
        if let Some(rest) = s.strip_prefix("@/") {
            format!("{}{}", root, rest)
        } else {
            s.clone()
        }
    };
    Step { kind: "cli".into(), argv: argv.iter().map(sub).collect(), stdin: stdin.as_ref().map(sub), out_path: None, rc: None, label: String::new() }
}

fn sv(xs: &[&str]) -> Vec<String> {
    xs.iter().map(|s| s.to_string()).collect()
}

fn tests_text(cases: &[TestCase]) -> Vec<u8> {
    let wl = Workload { docs: vec![], progs: vec![], params: vec![], tests: cases.to_vec(), template: None, overrides: BTreeMap::new(), mtimes: BTreeMap::new(), mtime_base_s: 0, odd_names: false };
    wl.tests_text().into_bytes()
}

/// Singleton observations.
#[derive(Clone, Debug, Default)]
pub struct Obs {
    /// per rules file: "P" parses, "B" broken (parse error), "U" unreadable, "E" empty (no rules)
    pub rules: Vec<String>,
    /// per data file: "L" loads, "M" malformed / unreadable
    pub data: Vec<String>,
    /// per (rules, data) with P and L: "0" | "19" | "E" (evaluation error)
    pub pair: BTreeMap<(usize, usize), String>,
    /// per test case (against rules[0]): "0" | "7" | "E"
    pub case: Vec<String>,
    /// the same against rules[1] (for the --dir layout), empty if there is no second rules file
    pub case1: Vec<String>,
    /// (rules index, case index, what `validate` implies for that case, what `test` returned)
    pub cross: Vec<(usize, usize, String, String)>,
}

impl C06 {
    fn run1(&self, w: &mut Work, argv: &[String], stdin: &Option<String>, rep: &mut Report) -> (String, Vec<u8>, Vec<u8>) {
        let mut req = w.req();
        req.steps = vec![step(argv, stdin, &w.root)];
        let o = w.run(&req);
        rep.absorb_exec(&o);
        match o.steps.first() {
            Some(s) if o.died_in.is_none() => (outcome_class(s), s.stdout.clone(), s.stderr.clone()),
            _ => (format!("died:{}", o.end), vec![], vec![]),
        }
    }

    fn observe(&self, w: &mut Work, scn: &Scn6, rep: &mut Report) -> Obs {
        let mut obs = Obs::default();
        w.write_file(&FileSpec { rel: "obs/trivial.guard".into(), bytes: b"rule trivial {\n  zz_no_such_key !exists\n}\n".to_vec(), mtime_ns: 0 });
        for r in &scn.rules {
            let (c, out, err) = self.run1(w, &sv(&["cfn-guard", "parse-tree", "-r", &format!("@/{r}"), "-p"]), &None, rep);
            let e = String::from_utf8_lossy(&err);
            let class = if c == "exit:0" {
                // an empty / comment-only rules file parses to nothing: there is nothing to evaluate
                if String::from_utf8_lossy(&out).trim() == "null" {
                    "E"
                } else {
                    "P"
                }
            } else if e.contains("Parsing Error") || e.contains("Parser Error") {
                "B"
            } else {
                "U"
            };
            obs.rules.push(class.to_string());
        }
        for d in &scn.data {
            let (c, _o, _e) = self.run1(w, &sv(&["cfn-guard", "validate", "-r", "@/obs/trivial.guard", "-d", &format!("@/{d}"), "--structured", "-o", "json", "-S", "none"]), &None, rep);
            obs.data.push(if c == "exit:0" || c == "exit:19" { "L".into() } else { "M".into() });
        }
        for (ri, r) in scn.rules.iter().enumerate() {
            for (di, d) in scn.data.iter().enumerate() {
                if (obs.rules[ri] == "P" || obs.rules[ri] == "E") && obs.data[di] == "L" {
                    let (c, _o, _e) = self.run1(w, &sv(&["cfn-guard", "validate", "-r", &format!("@/{r}"), "-d", &format!("@/{d}"), "--structured", "-o", "json", "-S", "none"]), &None, rep);
                    let v = match c.as_str() {
                        "exit:0" => "0",
                        "exit:19" => "19",
                        _ => "E",
                    };
                    obs.pair.insert((ri, di), v.to_string());
                }
            }
        }
        for ri in 0..scn.rules.len().min(2) {
            for c in &scn.cases {
                w.write_file(&FileSpec { rel: "obs/one_tests.json".into(), bytes: tests_text(std::slice::from_ref(c)), mtime_ns: 0 });
                let (cl, _o, _e) = self.run1(w, &sv(&["cfn-guard", "test", "-r", &format!("@/{}", scn.rules[ri]), "-t", "@/obs/one_tests.json", "-o", "json"]), &None, rep);
                let mut v: String = match cl.as_str() {
                    "exit:0" => "0".into(),
                    "exit:7" => "7".into(),
                    _ => "E".into(),
                };
                // cross-check of the one-case classification: `validate` on the case's input
                // gives every rule's evaluated status; whether "every stated expectation
                // matches the evaluated status" follows (a name defined several times: FAIL if
                // any definition FAILs, else PASS if any PASSes, else SKIP)
                if (v == "0" || v == "7") && obs.rules[ri] == "P" {
                    let ci = if ri == 0 { obs.case.len() } else { obs.case1.len() };
                    w.write_file(&FileSpec { rel: "obs/one_input.json".into(), bytes: doc::render(&c.input, DocFmt::JsonCompact).into_bytes(), mtime_ns: 0 });
                    let (vc, vo, _e) = self.run1(w, &sv(&["cfn-guard", "validate", "-r", &format!("@/{}", scn.rules[ri]), "-d", "@/obs/one_input.json", "--structured", "-o", "json", "-S", "none"]), &None, rep);
                    if vc == "exit:0" || vc == "exit:19" {
                        if let Some(repv) = serde_json::from_slice::<Value>(&vo).ok().and_then(|v| v.as_array().and_then(|a| a.first().cloned())) {
                            let names = |k: &str| -> Vec<String> { repv.get(k).and_then(|a| a.as_array()).map(|a| a.iter().filter_map(|x| x.as_str().map(String::from)).collect()).unwrap_or_default() };
                            let failed: Vec<String> = repv.get("not_compliant").and_then(|a| a.as_array()).map(|a| a.iter().filter_map(|e| e.get("Rule").and_then(|r| r.get("name")).and_then(|n| n.as_str()).map(String::from)).collect()).unwrap_or_default();
                            let passed = names("compliant");
                            let skipped = names("not_applicable");
                            let mut all_known = true;
                            let mut all_match = true;
                            for (name, want) in &c.expect {
                                let got = if failed.contains(name) { "FAIL" } else if passed.contains(name) { "PASS" } else if skipped.contains(name) { "SKIP" } else { all_known = false; "" };
                                if !matches!(want.as_str(), "PASS" | "FAIL" | "SKIP") {
                                    all_known = false;
                                }
                                if got != want {
                                    all_match = false;
                                }
                            }
                            if all_known {
                                let implied = if all_match { "0" } else { "7" };
                                rep.count("reach.test_cross_checked_with_validate", 1);
                                if implied != v {
                                    obs.cross.push((ri, ci, implied.to_string(), v.clone()));
                                }
                            }
                        }
                    }
                }
                // an expectation that is none of PASS / FAIL / SKIP cannot "match the evaluated
                // status": whatever the one-case run says, such a case is never a success
                // (the cases are written for the first rules file: against another one the named
                // rules do not exist and the command never looks at their expectations)
                if ri == 0 && c.expect.iter().any(|(_, st)| !matches!(st.as_str(), "PASS" | "FAIL" | "SKIP")) {
                    if v == "0" {
                        rep.count("reach.misspelt_expectation_observed_as_success", 1);
                    }
                    v = "E".into();
                }
                if ri == 0 {
                    obs.case.push(v);
                } else {
                    obs.case1.push(v);
                }
            }
        }
        obs
    }

    /// The reference model: the set of acceptable exit classes for a validate delivery.
    /// Returns (allowed, description of the item classes).
    fn model_validate(&self, obs: &Obs, d: &Dlv, hard: &[String], scn: &Scn6) -> (Vec<&'static str>, String) {
        let mut rules: Vec<String> = d.rules_idx.iter().map(|i| obs.rules[*i].clone()).collect();
        let mut data: Vec<String> = d.data_idx.iter().map(|i| obs.data[*i].clone()).collect();
        // items hit by an injected hard fault (EIO / failing open) become unreadable
        for (k, i) in d.rules_idx.iter().enumerate() {
            // (`alt/policy<i>.<ext>` is rules file i delivered under another name)
            if hard.iter().any(|h| h == &scn.rules[*i] || h.starts_with(&format!("alt/policy{}.", i))) {
                rules[k] = "U".into();
            }
        }
        let mut data_hard = false;
        for (k, i) in d.data_idx.iter().enumerate() {
            if hard.iter().any(|h| h == &scn.data[*i]) {
                data[k] = "M".into();
                data_hard = true;
            }
        }
        let _ = data_hard;
        let mut fails = false;
        let mut evalerr = false;
        for ri in &d.rules_idx {
            for di in &d.data_idx {
                match obs.pair.get(&(*ri, *di)).map(|s| s.as_str()) {
                    Some("19") => fails = true,
                    Some("E") => evalerr = true,
                    _ => {}
                }
            }
        }
        let mut rs = rules.clone();
        rs.sort();
        let mut ds = data.clone();
        ds.sort();
        let desc = format!("rules[{}] data[{}]{}{}{}", rs.join(""), ds.join(""), if fails { " some-FAIL" } else { "" }, if evalerr { " eval-error" } else { "" }, if d.missing.is_empty() { "" } else { " missing-path" });
        let nonzero_not19: Vec<&'static str> = vec!["exit:5", "err:255", "exit:1", "exit:2"];
        // the stream on stdin (payload or data) failed with a hard read error
        if let Some(si) = &d.stdin {
            let rel = si.strip_prefix("@/").unwrap_or(si);
            if hard.iter().any(|h| h == rel) {
                return (nonzero_not19, format!("{desc} stdin-read-error"));
            }
        }
        // any missing path, malformed or unreadable data ⇒ error exit, never 0, never 19
        // (a parameter file hit by an injected EIO / failing open is unreadable input too)
        let params_hard = hard.iter().any(|h| h.starts_with("params/"));
        if !d.missing.is_empty() || params_hard || data.iter().any(|c| c == "M") {
            return (nonzero_not19, desc);
        }
        let unreadable = rules.iter().any(|c| c == "U");
        let broken = rules.iter().any(|c| c == "B");
        if evalerr {
            // the error is only met if evaluation gets that far; a parse / read failure of
            // another rules file is reported instead in some modes
            let mut a = nonzero_not19.clone();
            if unreadable || broken {
                // nothing more can be said than "not success"
                a.push("exit:19");
            }
            return (a, desc);
        }
        if unreadable {
            // only "exit != 0" is required of an unreadable rules file
            return (vec!["exit:5", "exit:19", "err:255", "exit:1"], desc);
        }
        if !broken {
            return (vec![if fails { "exit:19" } else { "exit:0" }], desc);
        }
        if fails {
            (vec!["exit:5", "exit:19"], desc)
        } else {
            (vec!["exit:5"], desc)
        }
    }

    fn gen(&self, seed: u64, rep: &mut Report) -> (Workload, Scn6) {
        let mut r = Rng::stream(seed, "workload");
        let mut o = WlOpts::default();
        o.bad_expectations = true;
        o.gen = GenOpts { functions: r.chance(1, 3), ..Default::default() };
        let mut wl = gen_workload(&mut r, &o);
        // a rules file that is evaluated on one document and SKIPs as a whole on another
        if wl.docs.len() > 1 && r.chance(1, 5) {
            let key = match &wl.docs[0].0 {
                doc::J::Map(kv) if !kv.is_empty() => Some(kv[r.usize(kv.len())].0.clone()),
                _ => None,
            };
            if let Some(gk) = key {
                if crate::rules::is_ident_pub(&gk) {
                    let victim = 1 + r.usize(wl.docs.len() - 1);
                    if let doc::J::Map(kv) = &mut wl.docs[victim].0 {
                        kv.retain(|(k, _)| *k != gk);
                    }
                    let t = r.usize(wl.progs.len());
                    for rule in wl.progs[t].rules.iter_mut() {
                        rule.when.insert(0, crate::rules::Line { alts: vec![crate::rules::Clause::Cmp(crate::rules::Cmp { not: false, q: crate::rules::Query { some: false, parts: vec![crate::rules::Part::Key(gk.clone())] }, op: crate::rules::Op::Exists, opnot: false, rhs: None, msg: None })] });
                    }
                    wl.progs[t].default_lines.clear();
                    rep.count("gen.rules_file_skips_on_one_document", 1);
                }
            }
        }
        let mut files = Vec::new();
        let mut rules = Vec::new();
        let mut data = Vec::new();
        // several files may share one base name in different directories (a per-team layout)
        let same_base_rules = wl.progs.len() > 1 && r.chance(1, 4);
        let same_base_data = wl.docs.len() > 1 && r.chance(1, 4);
        if same_base_rules {
            rep.count("gen.same_base_name_rules", 1);
        }
        if same_base_data {
            rep.count("gen.same_base_name_data", 1);
        }
        for (i, p) in wl.progs.iter().enumerate() {
            let mut p = p.clone();
            if !p.rules.is_empty() && r.chance(1, 6) {
                // one rule name defined twice, the extra definition guarded so that it SKIPs
                let k = r.usize(p.rules.len());
                let mut twin = p.rules[k].clone();
                twin.when.insert(0, crate::rules::Line { alts: vec![crate::rules::Clause::Cmp(crate::rules::Cmp { not: false, q: crate::rules::Query { some: false, parts: vec![crate::rules::Part::Key("zz_never_there".into())] }, op: crate::rules::Op::Exists, opnot: false, rhs: None, msg: None })] });
                let at = r.usize(p.rules.len() + 1);
                p.rules.insert(at, twin);
                rep.count("gen.rule_name_defined_twice", 1);
            }
            if r.chance(1, 5) {
                // a rules file whose every rule SKIPs (guard on a key no document has)
                for rule in p.rules.iter_mut() {
                    rule.when.insert(0, crate::rules::Line { alts: vec![crate::rules::Clause::Cmp(crate::rules::Cmp { not: false, q: crate::rules::Query { some: false, parts: vec![crate::rules::Part::Key("zz_never_there".into())] }, op: crate::rules::Op::Exists, opnot: false, rhs: None, msg: None })] });
                }
                p.default_lines.clear();
                rep.count("gen.rules_all_skip", 1);
            }
            let mut bytes = p.print().into_bytes();
            match r.below(12) {
                0 | 1 => {
                    // syntactically broken by a storage fault: lost tail
                    let k = bytes.len() / 2 + r.usize(bytes.len() / 2 + 1);
                    bytes.truncate(k.saturating_sub(1).max(1));
                    rep.count("gen.rules_truncated", 1);
                }
                2 => {
                    let at = r.usize(bytes.len() + 1);
                    bytes.splice(at..at, b"{{ ]] <<".to_vec());
                    rep.count("gen.rules_garbage", 1);
                }
                3 => {
                    // unreadable: torn multi-byte character / invalid UTF-8
                    let at = r.usize(bytes.len() + 1);
                    bytes.splice(at..at, r.pick(&[&b"\xC3"[..], &b"\xFF\xFE"[..], &b"\xED\xA0\x80"[..]]).to_vec());
                    rep.count("gen.rules_bad_utf8", 1);
                }
                4 => {
                    bytes = b"# only a comment\n\n".to_vec();
                    rep.count("gen.rules_empty", 1);
                }
                _ => {}
            }
            // (`.ruleset` is the other extension a directory walk accepts)
            let rel = if same_base_rules { format!("rules/team-{}/checks.guard", i) } else if r.chance(1, 6) { format!("rules/r{}.ruleset", i) } else { rules_rel(i) };
            files.push(FileSpec { rel: rel.clone(), bytes, mtime_ns: 0 });
            rules.push(rel);
        }
        for (i, (d, f)) in wl.docs.iter().enumerate() {
            let mut bytes = doc::render(d, *f).into_bytes();
            match r.below(12) {
                0 => {
                    let k = 1 + r.usize(bytes.len().max(2) - 1);
                    bytes.truncate(k);
                    rep.count("gen.data_truncated", 1);
                }
                1 => {
                    let at = r.usize(bytes.len() + 1);
                    bytes.splice(at..at, b"\xFF".to_vec());
                    rep.count("gen.data_bad_utf8", 1);
                }
                2 => {
                    bytes = b"   \n".to_vec();
                    rep.count("gen.data_blank", 1);
                }
                _ => {}
            }
            // every extension the directory walk accepts: .json .jsn .yaml .yml .template
            let ext = if r.chance(1, 3) { if f.ext() == "json" { *r.pick(&["jsn", "template"]) } else { *r.pick(&["yml", "template"]) } } else { f.ext() };
            let rel = if same_base_data { format!("data/env-{}/template.{}", i, ext) } else { format!("data/d{}.{}", i, ext) };
            files.push(FileSpec { rel: rel.clone(), bytes, mtime_ns: 0 });
            data.push(rel);
        }
        for (i, f) in files.iter_mut().enumerate() {
            f.mtime_ns = (1_700_000_000 + 11 * i as i64) * 1_000_000_000;
        }
        // test files: expectations are whatever the generator drew (match / mismatch both occur);
        // cases spread over 1-3 files, some files broken or unreadable
        let mut cases = wl.tests.clone();
        // names: distinct, all absent, or all the same (a name identifies nothing)
        let naming = r.below(8);
        for (i, c) in cases.iter_mut().enumerate() {
            c.name = match naming {
                0 | 1 => None,
                2 => Some("case".to_string()),
                _ => Some(format!("case {}", i + 1)),
            };
        }
        let test_ext = *r.pick(&["json", "json", "json", "jsn", "yaml", "yml"]);
        let nfiles = 1 + r.usize(3.min(cases.len()));
        let mut test_files: Vec<(String, Option<Vec<usize>>)> = Vec::new();
        let mut buckets: Vec<Vec<usize>> = vec![vec![]; nfiles];
        for i in 0..cases.len() {
            buckets[i % nfiles].push(i);
        }
        for (k, b) in buckets.iter().enumerate() {
            let rel = format!("tests/t{}_tests.{}", k, test_ext);
            let cs: Vec<TestCase> = b.iter().map(|i| cases[*i].clone()).collect();
            files.push(FileSpec { rel: rel.clone(), bytes: tests_text(&cs), mtime_ns: 0 });
            test_files.push((rel, Some(b.clone())));
        }
        if r.chance(1, 4) {
            let rel = "tests/t9_tests.json".to_string();
            let bytes: Vec<u8> = match r.below(3) {
                0 => b"[ {\"name\": \"x\", \"input\": ".to_vec(),
                1 => b"- name: x\n  input: {}\n  expectations: 7\n".to_vec(),
                _ => b"[\xFF]".to_vec(),
            };
            files.push(FileSpec { rel: rel.clone(), bytes, mtime_ns: 0 });
            test_files.push((rel, None));
            rep.count("gen.test_file_broken", 1);
        }
        // the --dir layout: <dir>/<name>.guard + <dir>/tests/<name>*.json (copies of the above)
        if let Some(r0) = files.iter().find(|f| f.rel == rules[0]).cloned() {
            files.push(FileSpec { rel: "dl/r0.guard".into(), ..r0 });
        }
        for (rel, _) in &test_files {
            if let Some(t) = files.iter().find(|f| &f.rel == rel).cloned() {
                files.push(FileSpec { rel: rel.replace("tests/", "dl/tests/r0_"), ..t });
            }
        }
        // guard files without any test file, sorting before and after the tested ones: the
        // command skips them
        if r.chance(1, 3) {
            let body = b"rule untested {\n  zz_no_such_key !exists\n}\n".to_vec();
            files.push(FileSpec { rel: "dl/a0_untested.guard".into(), bytes: body.clone(), mtime_ns: 0 });
            files.push(FileSpec { rel: "dl/z9_untested.guard".into(), bytes: body, mtime_ns: 0 });
            rep.count("gen.untested_guard_files_in_dir", 1);
        }
        // a second rules file with its own copies of the test files (same cases)
        if rules.len() > 1 {
            if let Some(r1) = files.iter().find(|f| f.rel == rules[1]).cloned() {
                files.push(FileSpec { rel: "dl/r1.guard".into(), ..r1 });
            }
            for (rel, _) in &test_files {
                if let Some(t) = files.iter().find(|f| &f.rel == rel).cloned() {
                    files.push(FileSpec { rel: rel.replace("tests/", "dl/tests/r1_"), ..t });
                }
            }
        }
        (wl.clone(), Scn6 { files, rules, data, cases, test_files })
    }

    fn deliveries(&self, r: &mut Rng, scn: &Scn6, obs: &Obs, k: usize) -> Vec<Dlv> {
        let mut out = Vec::new();
        let nr = scn.rules.len();
        let nd = scn.data.len();
        let all_r: Vec<usize> = (0..nr).collect();
        let all_d: Vec<usize> = (0..nd).collect();
        for _ in 0..k {
            let fmt = *r.pick(&["plain", "plain", "json", "yaml", "junit", "sarif"]);
            let tail: Vec<String> = if fmt == "plain" {
                let o = *r.pick(&["single-line-summary", "json", "yaml"]);
                let mut t = sv(&["-o", o, "-S", *r.pick(&["all", "fail", "none"])]);
                if r.chance(1, 5) {
                    t.push("-v".into());
                }
                t
            } else {
                sv(&["--structured", "-o", fmt, "-S", "none"])
            };
            let faults = match r.below(4) {
                0 => FaultSpec::Random { seed: r.next(), rates: RatesSpec { read_short: 160, read_eintr: 40, write_short: 80, write_eintr: 20, max_short: 1 + r.below(24) as u32, ..Default::default() } },
                1 => FaultSpec::Random { seed: r.next(), rates: RatesSpec { read_eio: *r.pick(&[8u8, 40]), open_fail: *r.pick(&[0u8, 30]), read_short: 60, max_short: 9, ..Default::default() } },
                _ => FaultSpec::Off,
            };
            let choice = r.below(10);
            if choice < 4 {
                let pr = r.perm(nr);
                let pd = r.perm(nd);
                let mut argv = sv(&["cfn-guard", "validate"]);
                // a rules file named explicitly may carry any extension (a copy under another name)
                let mut alt: Vec<FileSpec> = Vec::new();
                for i in &pr {
                    argv.push("-r".into());
                    if r.chance(1, 8) {
                        if let Some(f) = scn.files.iter().find(|f| f.rel == scn.rules[*i]) {
                            let rel = format!("alt/policy{}.{}", i, *r.pick(&["rules", "txt", "guard.bak"]));
                            alt.push(FileSpec { rel: rel.clone(), bytes: f.bytes.clone(), mtime_ns: 0 });
                            argv.push(format!("@/{}", rel));
                            continue;
                        }
                    }
                    argv.push(format!("@/{}", scn.rules[*i]));
                }
                let mut missing = Vec::new();
                let mut dlist: Vec<String> = pd.iter().map(|i| format!("@/{}", scn.data[*i])).collect();
                if r.chance(1, 8) {
                    // a path that does not exist, at a seeded position
                    let at = r.usize(dlist.len() + 1);
                    dlist.insert(at, "@/data/no_such_file.json".into());
                    missing.push("data/no_such_file.json".into());
                } else if r.chance(1, 12) {
                    argv.push("-r".into());
                    argv.push("@/rules/no_such_rules.guard".into());
                    missing.push("rules/no_such_rules.guard".into());
                } else if r.chance(1, 12) {
                    argv.push("-i".into());
                    argv.push("@/params/no_such_params.json".into());
                    missing.push("params/no_such_params.json".into());
                }
                for d in dlist {
                    argv.push("-d".into());
                    argv.push(d);
                }
                // a directory that holds nothing the command accepts (other extensions only)
                // contributes no rules file, no document and no error
                let mut extra = alt;
                if r.chance(1, 6) {
                    extra.push(FileSpec { rel: "nothing/notes.txt".into(), bytes: b"{ not: [json".to_vec(), mtime_ns: 0 });
                    extra.push(FileSpec { rel: "nothing/sub/readme.md".into(), bytes: b"rule x {".to_vec(), mtime_ns: 0 });
                    argv.push(if r.chance(1, 2) { "-d" } else { "-r" }.into());
                    argv.push("@/nothing".into());
                }
                argv.extend(tail);
                out.push(Dlv { kind: format!("args{}-{fmt}", if extra.is_empty() { "" } else { "+extras" }), argv, stdin: None, dir_mode: "asc".into(), dir_seed: 1, faults, extra, missing, rules_idx: all_r.clone(), data_idx: all_d.clone() });
            } else if choice < 7 {
                let flag = *r.pick(&["", "-a", "-m"]);
                // the same directories, or directories of symbolic links to their files (a
                // mounted config map, a stow / nix tree)
                let links = r.chance(1, 4);
                let mut extra = vec![];
                let link_to = |rel: &String| FileSpec { rel: format!("l{} -> {}{}", rel, "../".repeat(rel.matches('/').count()), rel), bytes: vec![], mtime_ns: 0 };
                let mut argv = if links {
                    extra.extend(scn.rules.iter().map(link_to));
                    extra.extend(scn.data.iter().map(link_to));
                    sv(&["cfn-guard", "validate", "-r", "@/lrules", "-d", "@/ldata"])
                } else {
                    sv(&["cfn-guard", "validate", "-r", "@/rules", "-d", "@/data"])
                };
                if !flag.is_empty() {
                    argv.push(flag.into());
                }
                argv.extend(tail);
                // hard faults are attributed by path: only transparent ones through links
                let faults = if links && matches!(&faults, FaultSpec::Random { rates, .. } if rates.read_eio > 0 || rates.open_fail > 0) { FaultSpec::Off } else { faults };
                out.push(Dlv { kind: format!("{}{flag}-{fmt}", if links { "linkdirs" } else { "dirs" }), argv, stdin: None, dir_mode: (*r.pick(&["shuffle", "desc", "asc"])).to_string(), dir_seed: r.next(), faults, extra, missing: vec![], rules_idx: all_r.clone(), data_idx: all_d.clone() });
            } else if choice < 9 {
                // payload: only items whose bytes are text can be embedded
                let pr: Vec<usize> = r.perm(nr).into_iter().filter(|i| obs.rules[*i] != "U").collect();
                let pd: Vec<usize> = r.perm(nd).into_iter().filter(|i| std::str::from_utf8(&scn.files.iter().find(|f| f.rel == scn.data[*i]).unwrap().bytes).is_ok()).collect();
                if pr.is_empty() {
                    continue;
                }
                let text = |rel: &String| String::from_utf8_lossy(&scn.files.iter().find(|f| &f.rel == rel).unwrap().bytes).into_owned();
                let mut payload = serde_json::to_vec(&json!({"rules": pr.iter().map(|i| text(&scn.rules[*i])).collect::<Vec<_>>(), "data": pd.iter().map(|i| text(&scn.data[*i])).collect::<Vec<_>>()})).unwrap();
                let mut missing = vec![];
                if r.chance(1, 8) {
                    // a torn payload: malformed input must be an error exit
                    let k = r.usize(payload.len());
                    payload.truncate(k);
                    missing.push("<torn payload>".to_string());
                }
                let mut argv = sv(&["cfn-guard", "validate", "--payload"]);
                argv.extend(tail);
                out.push(Dlv { kind: format!("payload-{fmt}"), argv, stdin: Some("@/dlv/payload.json".into()), dir_mode: "asc".into(), dir_seed: 1, faults, extra: vec![FileSpec { rel: "dlv/payload.json".into(), bytes: payload, mtime_ns: 0 }], missing, rules_idx: pr, data_idx: pd });
            } else {
                // data on stdin, one rules file or all
                let di = r.usize(nd);
                let rs: Vec<usize> = if r.chance(1, 2) { all_r.clone() } else { vec![r.usize(nr)] };
                let mut argv = sv(&["cfn-guard", "validate"]);
                for i in &rs {
                    argv.push("-r".into());
                    argv.push(format!("@/{}", scn.rules[*i]));
                }
                argv.extend(tail);
                out.push(Dlv { kind: format!("stdin-{fmt}"), argv, stdin: Some(format!("@/{}", scn.data[di])), dir_mode: "asc".into(), dir_seed: 1, faults, extra: vec![], missing: vec![], rules_idx: rs, data_idx: vec![di] });
            }
        }
        out
    }

    fn test_deliveries(&self, r: &mut Rng, scn: &Scn6, k: usize) -> Vec<Dlv> {
        let mut out = Vec::new();
        for _ in 0..k {
            let fmt = *r.pick(&["single-line-summary", "json", "yaml", "junit"]);
            if r.chance(1, 3) {
                let mut argv = sv(&["cfn-guard", "test", "--dir", "@/dl", "-o", fmt]);
                if r.chance(1, 2) {
                    argv.push((*r.pick(&["-a", "-m"])).to_string());
                }
                out.push(Dlv { kind: format!("testdir-{fmt}"), argv, stdin: None, dir_mode: (*r.pick(&["shuffle", "desc", "asc"])).to_string(), dir_seed: r.next(), faults: FaultSpec::Off, extra: vec![], missing: vec![], rules_idx: (0..scn.rules.len().min(2)).collect(), data_idx: (0..scn.test_files.len()).collect() });
                continue;
            }
            let which = r.below(3);
            let (target, idx): (String, Vec<usize>) = if which == 0 || scn.test_files.len() == 1 {
                let i = r.usize(scn.test_files.len());
                (format!("@/{}", scn.test_files[i].0), vec![i])
            } else {
                ("@/tests".to_string(), (0..scn.test_files.len()).collect())
            };
            let mut argv = sv(&["cfn-guard", "test", "-r", &format!("@/{}", scn.rules[0]), "-t", &target, "-o", fmt]);
            if r.chance(1, 2) {
                argv.push((*r.pick(&["-a", "-m"])).to_string());
            }
            let faults = if r.chance(1, 3) { FaultSpec::Random { seed: r.next(), rates: RatesSpec { read_short: 160, read_eintr: 40, write_short: 80, write_eintr: 20, max_short: 1 + r.below(24) as u32, ..Default::default() } } } else { FaultSpec::Off };
            out.push(Dlv { kind: format!("test-{fmt}"), argv, stdin: None, dir_mode: (*r.pick(&["shuffle", "desc", "asc"])).to_string(), dir_seed: r.next(), faults, extra: vec![], missing: vec![], rules_idx: vec![0], data_idx: idx });
        }
        out
    }

    fn run_dlv(&self, w: &mut Work, scn: &Scn6, d: &Dlv, rep: &mut Report) -> (String, Vec<String>) {
        let mut files = scn.files.clone();
        files.extend(d.extra.iter().cloned());
        w.materialise(&files);
        let mut req = w.req();
        req.sim.dir_mode = d.dir_mode.clone();
        req.sim.dir_seed = d.dir_seed;
        req.sim.faults = d.faults.clone();
        req.steps = vec![step(&d.argv, &d.stdin, &w.root)];
        let o = w.run(&req);
        rep.absorb_exec(&o);
        let hard: Vec<String> = o.fin.as_ref().map(|f| f.hard_faulted.iter().filter(|h| !h.starts_with("eof:")).cloned().collect()).unwrap_or_default();
        match o.steps.first() {
            Some(s) if o.died_in.is_none() => (outcome_class(s), hard),
            _ => (format!("died:{}", o.end), hard),
        }
    }

    /// (allowed, description) for a test delivery
    fn model_test(&self, obs: &Obs, scn: &Scn6, d: &Dlv, hard: &[String]) -> (Vec<&'static str>, String) {
        let mut classes: Vec<String> = Vec::new();
        let mut broken_file = false;
        let mut mismatch = false;
        let mut case_err = false;
        for ri in &d.rules_idx {
            let rules_class = if hard.iter().any(|h| h == &scn.rules[*ri]) { "U".to_string() } else { obs.rules[*ri].clone() };
            classes.push(rules_class.clone());
            if rules_class != "P" {
                // nothing of this rules file is tested (E: nothing to test; B/U: error)
                continue;
            }
            let outcomes = if *ri == 0 { &obs.case } else { &obs.case1 };
            for fi in &d.data_idx {
                let (rel, cases) = &scn.test_files[*fi];
                if hard.iter().any(|h| h == rel) {
                    broken_file = true;
                    continue;
                }
                match cases {
                    None => broken_file = true,
                    Some(cs) => {
                        for c in cs {
                            match outcomes.get(*c).map(|s| s.as_str()) {
                                Some("7") => mismatch = true,
                                Some("E") => case_err = true,
                                _ => {}
                            }
                        }
                    }
                }
            }
        }
        let desc = format!("rules[{}]{}{}{}", classes.join(""), if broken_file { " broken-test-file" } else { "" }, if mismatch { " mismatch" } else { "" }, if case_err { " case-error" } else { "" });
        if classes.iter().all(|c| c == "E") {
            // no rules at all: the command returns before looking at any test file
            return (vec!["exit:0", "exit:1", "exit:7", "err:255"], desc);
        }
        if classes.iter().any(|c| c == "B" || c == "U") || case_err {
            return (vec!["exit:1", "exit:7", "err:255", "exit:5"], desc);
        }
        if broken_file {
            // a broken test file only matters for rules files that are actually tested
            if classes.iter().any(|c| c == "P") {
                return (vec!["exit:1", "exit:7", "err:255", "exit:5"], desc);
            }
            return (vec!["exit:0", "exit:1", "exit:7", "err:255"], desc);
        }
        (vec![if mismatch { "exit:7" } else { "exit:0" }], desc)
    }

    fn to_json(&self, scn: &Scn6, d: &Dlv) -> Value {
        json!({"files": files_to_json(&scn.files), "rules": scn.rules, "data": scn.data,
               "cases": scn.cases.iter().map(|t| json!({"name": t.name, "input": doc::render(&t.input, DocFmt::JsonCompact), "expect": t.expect})).collect::<Vec<_>>(),
               "test_files": scn.test_files,
               "delivery": {"kind": d.kind, "argv": d.argv, "stdin": d.stdin, "dir_mode": d.dir_mode, "dir_seed": d.dir_seed, "faults": serde_json::to_value(&d.faults).unwrap(),
                            "extra": files_to_json(&d.extra), "missing": d.missing, "rules_idx": d.rules_idx, "data_idx": d.data_idx}})
    }

    /// The generator draws expectations blindly, so nearly every case mismatches. Before the
    /// scenario is used, most expectations are aligned with what `validate` reports for the
    /// case's input against the first rules file (three in four; the rest stay as drawn, and
    /// misspelt statuses stay misspelt), and the test files are written again. Part of scenario
    /// construction: the replay file carries the final cases and files.
    fn align_expectations(&self, w: &mut Work, scn: &mut Scn6, seed: u64, rep: &mut Report) {
        if scn.rules.is_empty() || scn.cases.is_empty() {
            return;
        }
        let mut r = Rng::stream(seed, "align");
        let mut changed = false;
        for ci in 0..scn.cases.len() {
            w.write_file(&FileSpec { rel: "obs/one_input.json".into(), bytes: doc::render(&scn.cases[ci].input, DocFmt::JsonCompact).into_bytes(), mtime_ns: 0 });
            let (vc, vo, _e) = self.run1(w, &sv(&["cfn-guard", "validate", "-r", &format!("@/{}", scn.rules[0]), "-d", "@/obs/one_input.json", "--structured", "-o", "json", "-S", "none"]), &None, rep);
            if !(vc == "exit:0" || vc == "exit:19") {
                continue;
            }
            let repv = match serde_json::from_slice::<Value>(&vo).ok().and_then(|v| v.as_array().and_then(|a| a.first().cloned())) {
                Some(v) => v,
                None => continue,
            };
            let names = |k: &str| -> Vec<String> { repv.get(k).and_then(|a| a.as_array()).map(|a| a.iter().filter_map(|x| x.as_str().map(String::from)).collect()).unwrap_or_default() };
            let failed: Vec<String> = repv.get("not_compliant").and_then(|a| a.as_array()).map(|a| a.iter().filter_map(|e| e.get("Rule").and_then(|r| r.get("name")).and_then(|n| n.as_str()).map(String::from)).collect()).unwrap_or_default();
            let passed = names("compliant");
            let skipped = names("not_applicable");
            for (name, want) in scn.cases[ci].expect.iter_mut() {
                if !matches!(want.as_str(), "PASS" | "FAIL" | "SKIP") {
                    continue;
                }
                let actual = if failed.contains(name) { "FAIL" } else if passed.contains(name) { "PASS" } else if skipped.contains(name) { "SKIP" } else { continue };
                if r.chance(3, 4) && want != actual {
                    *want = actual.to_string();
                    changed = true;
                }
            }
        }
        if !changed {
            return;
        }
        rep.count("gen.expectations_aligned", 1);
        let test_files = scn.test_files.clone();
        for (rel, bucket) in &test_files {
            if let Some(b) = bucket {
                let cs: Vec<TestCase> = b.iter().map(|i| scn.cases[*i].clone()).collect();
                let bytes = tests_text(&cs);
                for target in [rel.clone(), rel.replace("tests/", "dl/tests/r0_"), rel.replace("tests/", "dl/tests/r1_")] {
                    if let Some(f) = scn.files.iter_mut().find(|f| f.rel == target) {
                        f.bytes = bytes.clone();
                    }
                }
            }
        }
    }

    fn check_one(&self, w: &mut Work, scn: &Scn6, d: &Dlv, rep: &mut Report) -> Option<(String, String)> {
        w.materialise(&scn.files);
        let obs = self.observe(w, scn, rep);
        self.judge(w, scn, d, &obs, rep)
    }

    fn judge(&self, w: &mut Work, scn: &Scn6, d: &Dlv, obs: &Obs, rep: &mut Report) -> Option<(String, String)> {
        if d.kind == "cross-test-validate" {
            // not a delivery: the one-case `test` run against what `validate` says about the same input
            let (ri, ci) = (d.rules_idx.first().copied().unwrap_or(0), d.data_idx.first().copied().unwrap_or(0));
            return obs.cross.iter().find(|(r, c, _, _)| *r == ri && *c == ci).map(|(_, _, implied, got)| {
                (
                    format!("test-vs-validate/implied-{}-got-{}", implied, got),
                    format!("`cfn-guard test -r {} -t <case {}>` exits {} but `validate` on the case's input gives statuses for which the stated expectations {} (exit {} expected)", scn.rules[ri], ci + 1, got, if implied == "0" { "all match" } else { "do not all match" }, implied),
                )
            });
        }
        let (class, hard) = self.run_dlv(w, scn, d, rep);
        if class.starts_with("died") || class.starts_with("panic") {
            rep.count("skipped.crash_is_c08", 1);
            return None;
        }
        if !hard.is_empty() {
            rep.count("reach.hard_fault_reclassified_item", 1);
        }
        let (allowed, desc) = if d.kind.starts_with("test") { self.model_test(obs, scn, d, &hard) } else { self.model_validate(obs, d, &hard, scn) };
        rep.classes.push(format!("{}|{}|{}", d.kind.split('-').next().unwrap_or(""), desc, class));
        rep.count("judged", 1);
        if allowed.contains(&class.as_str()) {
            None
        } else {
            let mode = d.kind.clone();
            Some((format!("{}/{}/{}", mode, desc, class), format!("`{}` over {} exited with {} — the documented fold allows {:?}{}", d.argv.join(" ").replace("@/", ""), desc, class, allowed, if hard.is_empty() { String::new() } else { format!(" (injected hard faults on: {})", hard.join(", ")) })))
        }
    }
}

impl Check for C06 {
    fn id(&self) -> &'static str {
        "C06"
    }
    fn level(&self) -> &'static str {
        "exploration"
    }
    fn scenarios(&self, tier: Tier) -> u64 {
        match tier {
            Tier::Quick => 1000,
            Tier::Thorough => 12000,
        }
    }
    fn rule_text(&self) -> String {
        "scenario n = 1-3 rules files (as generated, or truncated / garbage-spliced / torn-UTF-8 / comment-only) x 1-3 documents (as generated, truncated, invalid UTF-8, blank, or a missing path) + test files (cases spread over 1-3 files, some broken); every item is classified by observing it alone in a pristine process (parses / broken / unreadable; loads / malformed; pair exit 0 / 19 / error; case exit 0 / 7 / error). Each scenario is then delivered k times — argument permutations, directory walks under -a / -m / neither with a simulated readdir permutation, payload, stdin-data; plain (all -S / -o / -v variants) and --structured json/yaml/junit/sarif; test single-file / directory, all formats — half of them under read faults (short reads, EINTR: must not change the code; EIO and failing opens: the hit item becomes 'unreadable' in the model). Oracle: the observed exit class lies in the set the documented fold allows. distinct_nontrivial = distinct (command, item-class vector, observed exit) triples".into()
    }
    fn assumptions(&self) -> Vec<String> {
        vec![
            "whether each individual outcome is right (PASS/FAIL/SKIP of one pair) is C01 and is not decided; only the fold".into(),
            "the statement leaves the mixed case (a rules file fails to parse AND a pair FAILs) open: both 5 and 19 are accepted; an unreadable rules file is only required to give exit != 0".into(),
            "Err(..) from execute is the emulated main.rs exit 255".into(),
        ]
    }
    fn required_reach(&self, tier: Tier) -> Vec<(&'static str, u64)> {
        let mut v = vec![("judged", 1), ("gen.rules_truncated", 1), ("gen.data_truncated", 1)];
        if tier == Tier::Thorough {
            v.extend([("reach.hard_fault_reclassified_item", 1), ("gen.rules_bad_utf8", 1), ("gen.test_file_broken", 1)]);
        }
        v
    }

    fn run_scenario(&self, w: &mut Work, base_seed: u64, n: u64, tier: Tier) -> Report {
        let mut rep = Report::new(n);
        let seed = derive(base_seed, "C06", n);
        let (_wl, mut scn) = self.gen(seed, &mut rep);
        w.materialise(&scn.files);
        self.align_expectations(w, &mut scn, seed, &mut rep);
        w.materialise(&scn.files);
        let obs = self.observe(w, &scn, &mut rep);
        for c in &obs.rules {
            rep.count(&format!("item.rules.{c}"), 1);
        }
        for c in &obs.data {
            rep.count(&format!("item.data.{c}"), 1);
        }
        for c in obs.pair.values() {
            rep.count(&format!("item.pair.{c}"), 1);
        }
        for c in &obs.case {
            rep.count(&format!("item.case.{c}"), 1);
        }
        let (kv, kt) = match tier {
            Tier::Quick => (7, 3),
            Tier::Thorough => (12, 5),
        };
        let mut r = Rng::stream(seed, "deliveries");
        let mut ds = self.deliveries(&mut r, &scn, &obs, kv);
        ds.extend(self.test_deliveries(&mut r, &scn, kt));
        for (ri, ci, _, _) in &obs.cross {
            ds.push(Dlv { kind: "cross-test-validate".into(), argv: vec![], stdin: None, dir_mode: "asc".into(), dir_seed: 1, faults: FaultSpec::Off, extra: vec![], missing: vec![], rules_idx: vec![*ri], data_idx: vec![*ci] });
        }
        let mut done: Vec<String> = Vec::new();
        for d in &ds {
            rep.count(&format!("delivery.{}", d.kind.split('-').next().unwrap_or("")), 1);
            if let Some((sig, what)) = self.judge(w, &scn, d, &obs, &mut rep) {
                if done.contains(&sig) {
                    continue;
                }
                done.push(sig.clone());
                // confirm (re-observe + re-run)
                let mut crep = Report::default();
                let again = self.check_one(w, &scn, d, &mut crep);
                rep.execs += crep.execs;
                if again.as_ref().map(|(s, _)| s) != Some(&sig) {
                    rep.count("harness.unconfirmed_findings", 1);
                    continue;
                }
                // minimise: read faults off, natural directory order, fewer files
                let mut md = d.clone();
                let mut mscn = scn.clone();
                let mut execs = 0u64;
                if w.seen.insert(sig.clone()) {
                    let mut mrep = Report::default();
                    for cand in [Dlv { faults: FaultSpec::Off, ..md.clone() }, Dlv { dir_mode: "asc".into(), ..md.clone() }] {
                        if self.check_one(w, &mscn, &cand, &mut mrep).map(|(s, _)| s) == Some(sig.clone()) {
                            md = cand;
                        }
                    }
                    // drop test files / cases when the delivery is a validate (and vice versa nothing)
                    if !md.kind.starts_with("test") {
                        let c = Scn6 { files: mscn.files.iter().filter(|f| !f.rel.starts_with("tests/")).cloned().collect(), cases: vec![], test_files: vec![], ..mscn.clone() };
                        if self.check_one(w, &c, &md, &mut mrep).map(|(s, _)| s) == Some(sig.clone()) {
                            mscn = c;
                        }
                    }
                    execs = mrep.execs;
                    rep.execs += execs;
                }
                rep.violations.push(Violation { signature: sig, what, replay: self.to_json(&mscn, &md), shrink_execs: execs, minimised: execs > 0 });
            }
        }
        if n < 3 {
            rep.sample = Some(json!({
                "item_classes": {"rules": obs.rules, "data": obs.data, "pairs": obs.pair.iter().map(|((a, b), c)| format!("r{a}xd{b}:{c}")).collect::<Vec<_>>(), "cases": obs.case},
                "deliveries": ds.iter().map(|d| d.argv.join(" ")).collect::<Vec<_>>(),
            }));
        }
        rep
    }

    fn replay(&self, w: &mut Work, v: &Value) -> Vec<Violation> {
        let scn = Scn6 {
            files: files_from_json(v.get("files").unwrap_or(&Value::Null)),
            rules: serde_json::from_value(v.get("rules").cloned().unwrap_or(Value::Null)).unwrap_or_default(),
            data: serde_json::from_value(v.get("data").cloned().unwrap_or(Value::Null)).unwrap_or_default(),
            cases: v
                .get("cases")
                .and_then(|a| a.as_array())
                .map(|a| {
                    a.iter()
                        .map(|c| {
                            let input: Value = serde_json::from_str(c.get("input").and_then(|s| s.as_str()).unwrap_or("null")).unwrap_or(Value::Null);
                            TestCase { name: c.get("name").and_then(|s| s.as_str()).map(String::from), input: crate::c12::from_value(&input), expect: serde_json::from_value(c.get("expect").cloned().unwrap_or(Value::Null)).unwrap_or_default() }
                        })
                        .collect()
                })
                .unwrap_or_default(),
            test_files: serde_json::from_value(v.get("test_files").cloned().unwrap_or(Value::Null)).unwrap_or_default(),
        };
        let dv = match v.get("delivery") {
            Some(d) => d,
            None => return vec![],
        };
        let d = Dlv {
            kind: dv.get("kind").and_then(|s| s.as_str()).unwrap_or("").to_string(),
            argv: serde_json::from_value(dv.get("argv").cloned().unwrap_or(Value::Null)).unwrap_or_default(),
            stdin: dv.get("stdin").and_then(|s| s.as_str()).map(String::from),
            dir_mode: dv.get("dir_mode").and_then(|s| s.as_str()).unwrap_or("asc").to_string(),
            dir_seed: dv.get("dir_seed").and_then(|s| s.as_u64()).unwrap_or(1),
            faults: serde_json::from_value(dv.get("faults").cloned().unwrap_or(Value::Null)).unwrap_or(FaultSpec::Off),
            extra: files_from_json(dv.get("extra").unwrap_or(&Value::Null)),
            missing: serde_json::from_value(dv.get("missing").cloned().unwrap_or(Value::Null)).unwrap_or_default(),
            rules_idx: serde_json::from_value(dv.get("rules_idx").cloned().unwrap_or(Value::Null)).unwrap_or_default(),
            data_idx: serde_json::from_value(dv.get("data_idx").cloned().unwrap_or(Value::Null)).unwrap_or_default(),
        };
        let mut rep = Report::default();
        self.check_one(w, &scn, &d, &mut rep).into_iter().map(|(sig, what)| Violation { signature: sig, what, replay: Value::Null, shrink_execs: 0, minimised: false }).collect()
    }
}

#[allow(dead_code)]
fn _keep(_b: &[u8]) -> Option<Vec<Value>> {
    parse_json_stream(_b)
}
