//! Self-contained PRNG: splitmix64 for seeding/derivation, xoshiro256** for streams.
//! Nothing here ever touches the OS.

#[inline]
pub fn splitmix64(x: u64) -> u64 {
    let mut z = x.wrapping_add(0x9E37_79B9_7F4A_7C15);
    z = (z ^ (z >> 30)).wrapping_mul(0xBF58_476D_1CE4_E5B9);
    z = (z ^ (z >> 27)).wrapping_mul(0x94D0_49BB_1331_11EB);
    z ^ (z >> 31)
}

/// Derive a child seed from a parent seed and a tag (stream name) and index.
pub fn derive(seed: u64, tag: &str, n: u64) -> u64 {
    let mut h = splitmix64(seed ^ 0xA076_1D64_78BD_642F);
    for b in tag.as_bytes() {
        h = splitmix64(h ^ (*b as u64));
    }
    splitmix64(h ^ n.wrapping_mul(0xE703_7ED1_A0B4_28DB))
}

#[derive(Clone, Debug)]
pub struct Rng {
    s: [u64; 4],
}

impl Rng {
    pub const fn zero() -> Rng {
        Rng { s: [1, 2, 3, 4] }
    }
    pub fn new(seed: u64) -> Rng {
        let mut x = seed;
        let mut s = [0u64; 4];
        for i in 0..4 {
            x = splitmix64(x);
            s[i] = x;
        }
        if s == [0, 0, 0, 0] {
            s[0] = 1;
        }
        Rng { s }
    }
    pub fn stream(seed: u64, tag: &str) -> Rng {
        Rng::new(derive(seed, tag, 0))
    }
    #[inline]
    pub fn next(&mut self) -> u64 {
        let r = self.s[1].wrapping_mul(5).rotate_left(7).wrapping_mul(9);
        let t = self.s[1] << 17;
        self.s[2] ^= self.s[0];
        self.s[3] ^= self.s[1];
        self.s[1] ^= self.s[2];
        self.s[0] ^= self.s[3];
        self.s[2] ^= t;
        self.s[3] = self.s[3].rotate_left(45);
        r
    }
    /// uniform in 0..n (n > 0)
    #[inline]
    pub fn below(&mut self, n: u64) -> u64 {
        if n <= 1 {
            return 0;
        }
        // multiply-shift; bias negligible for our n
        ((self.next() as u128 * n as u128) >> 64) as u64
    }
    #[inline]
    pub fn range(&mut self, lo: i64, hi_incl: i64) -> i64 {
        lo + self.below((hi_incl - lo + 1) as u64) as i64
    }
    #[inline]
    pub fn usize(&mut self, n: usize) -> usize {
        self.below(n as u64) as usize
    }
    /// true with probability num/den
    #[inline]
    pub fn chance(&mut self, num: u64, den: u64) -> bool {
        self.below(den) < num
    }
    pub fn pick<'a, T>(&mut self, xs: &'a [T]) -> &'a T {
        &xs[self.usize(xs.len())]
    }
    pub fn shuffle<T>(&mut self, xs: &mut [T]) {
        let n = xs.len();
        for i in (1..n).rev() {
            let j = self.usize(i + 1);
            xs.swap(i, j);
        }
    }
    pub fn perm(&mut self, n: usize) -> Vec<usize> {
        let mut v: Vec<usize> = (0..n).collect();
        self.shuffle(&mut v);
        v
    }
    pub fn fill(&mut self, buf: &mut [u8]) {
        let mut i = 0;
        while i < buf.len() {
            let v = self.next().to_le_bytes();
            let k = core::cmp::min(8, buf.len() - i);
            buf[i..i + k].copy_from_slice(&v[..k]);
            i += k;
        }
    }
}

/// FNV-1a 64 rolling hash used for traces and output digests.
#[derive(Clone, Copy, Debug)]
pub struct Fnv(pub u64);
impl Fnv {
    pub const fn new() -> Fnv {
        Fnv(0xcbf2_9ce4_8422_2325)
    }
    #[inline]
    pub fn byte(&mut self, b: u8) {
        self.0 ^= b as u64;
        self.0 = self.0.wrapping_mul(0x100_0000_01b3);
    }
    pub fn bytes(&mut self, bs: &[u8]) {
        for b in bs {
            self.byte(*b);
        }
    }
    pub fn u64(&mut self, v: u64) {
        self.bytes(&v.to_le_bytes());
    }
}
pub fn fnv(bs: &[u8]) -> u64 {
    let mut f = Fnv::new();
    f.bytes(bs);
    f.0
}
