mod c0415;
mod c05;
mod c06;
mod c08;
mod c12;
mod c17;
mod child;
mod doc;
mod exec;
mod framework;
mod rules;
mod selftest;
mod workload;
mod prng;
mod proto;
mod seams;

use std::path::PathBuf;

/// Re-exec once with address-space randomisation off, so that heap addresses inside the
/// one-shot children (which inherit the personality) are a function of the request only.
fn ensure_no_aslr() -> bool {
    const ADDR_NO_RANDOMIZE: libc::c_ulong = 0x0040000;
    unsafe {
        let cur = libc::personality(0xffff_ffff);
        if cur >= 0 && (cur as libc::c_ulong & ADDR_NO_RANDOMIZE) != 0 {
            return true;
        }
        if std::env::var_os("GSIM_NOASLR_TRIED").is_some() {
            return false;
        }
        if cur < 0 || libc::personality(cur as libc::c_ulong | ADDR_NO_RANDOMIZE) < 0 {
            return false;
        }
        std::env::set_var("GSIM_NOASLR_TRIED", "1");
        let exe = std::ffi::CString::new("/proc/self/exe").unwrap();
        let args: Vec<std::ffi::CString> =
            std::env::args_os().map(|a| std::ffi::CString::new(std::os::unix::ffi::OsStringExt::into_vec(a)).unwrap()).collect();
        let mut ptrs: Vec<*const libc::c_char> = args.iter().map(|a| a.as_ptr()).collect();
        ptrs.push(std::ptr::null());
        libc::execv(exe.as_ptr(), ptrs.as_ptr());
        false
    }
}

fn smoke() {
    use exec::*;
    use proto::*;
    let scratch = PathBuf::from(format!("/dev/shm/gsim-{:08x}", std::process::id()));
    let mut w = Work::new(&scratch, 0);
    w.materialise(&[
        FileSpec { rel: "rules/a.guard".into(), bytes: b"rule r1 { a == 1 }\nrule r2 { b exists }\nrule r3 when r1 { c == 'x' }\nrule r4 { a > 0 }\n".to_vec(), mtime_ns: 0 },
        FileSpec { rel: "data/d.json".into(), bytes: br#"{"a":1,"c":"y"}"#.to_vec(), mtime_ns: 0 },
        FileSpec {
            rel: "tests/t.yaml".into(),
            bytes: b"- name: t1\n  input: {a: 1, c: y}\n  expectations:\n    rules:\n      r1: PASS\n      r2: FAIL\n      r3: FAIL\n      r4: PASS\n".to_vec(),
            mtime_ns: 0,
        },
    ]);
    for seed in 0..4u64 {
        let mut req = w.req();
        req.sim.entropy_seed = seed;
        req.sim.faults = FaultSpec::Random { seed, rates: RatesSpec { read_short: 128, read_eintr: 32, write_short: 128, write_eintr: 32, max_short: 7, ..Default::default() } };
        if seed == 3 { req.sim.faults = FaultSpec::Off; }
        req.steps = vec![
            Step { kind: "cli".into(), argv: vec!["cfn-guard".into(), "validate".into(), "-r".into(), w.abs("rules/a.guard"), "-d".into(), w.abs("data/d.json"), "--structured".into(), "-o".into(), "json".into(), "-S".into(), "none".into()], stdin: None, out_path: None, rc: None, label: "v".into() },
            Step { kind: "cli".into(), argv: vec!["cfn-guard".into(), "test".into(), "-r".into(), w.abs("rules/a.guard"), "-t".into(), w.abs("tests/t.yaml"), "-o".into(), "json".into()], stdin: None, out_path: None, rc: None, label: "t".into() },
        ];
        let t = std::time::Instant::now();
        let out = w.run(&req);
        println!("seed {seed}: end={} wall={:?} fin={:?}", out.end, t.elapsed(), out.fin.as_ref().map(|f| (f.trace, f.reads, f.writes, f.getrandoms, f.clock_calls, f.fired.clone())));
        for s in &out.steps {
            println!("  step {} {} code={} err={} out={}B fnv={:016x} stderr={:?}", s.res.idx, s.res.outcome, s.res.code, s.res.err, s.stdout.len(), prng::fnv(&s.stdout), String::from_utf8_lossy(&s.stderr));
        }
        if seed == 0 {
            println!("{}", String::from_utf8_lossy(&out.steps[1].stdout));
        }
        println!("  child stderr: {:?}", String::from_utf8_lossy(&out.child_stderr));
    }
    if std::env::var_os("GSIM_KEEP").is_some() { std::mem::forget(w); return; }
    drop(w);
    exec::rm_rf(&scratch);
}

fn probe(n: u64, seed: u64) {
    use std::collections::BTreeMap;
    let mut parse_fail = 0;
    let mut eval_err = 0;
    let mut panics = 0;
    let mut status: BTreeMap<String, u64> = BTreeMap::new();
    let mut shown = 0;
    std::panic::set_hook(Box::new(|i| { println!("PANIC-AT {:?} {}", i.location().map(|l| format!("{}:{}", l.file(), l.line())), i.payload().downcast_ref::<String>().cloned().or_else(|| i.payload().downcast_ref::<&str>().map(|s| s.to_string())).unwrap_or_default().chars().take(200).collect::<String>()); }));
    for i in 0..n {
        let mut r = prng::Rng::new(prng::derive(seed, "probe", i));
        let d = if r.chance(1, 3) { doc::gen_cfn(&mut r) } else { doc::gen_doc(&mut r) };
        let o = rules::GenOpts { adversarial: std::env::var_os("ADV").is_some(), ..Default::default() };
        let p = rules::gen_prog(&mut r, &d, &o);
        let text = p.print();
        let data = doc::render(&d, doc::DocFmt::JsonCompact);
        let res = std::panic::catch_unwind(|| {
            cfn_guard::run_checks(
                cfn_guard::ValidateInput { content: &data, file_name: "d.json" },
                cfn_guard::ValidateInput { content: &text, file_name: "r.guard" },
                false,
            )
        });
        match res {
            Err(_) => {
                panics += 1;
                if shown < 3 { shown += 1; println!("--- PANIC\n{text}\n{data}"); }
            }
            Ok(Err(e)) => {
                let es = format!("{e}");
                if es.contains("Parsing Error Error parsing file") {
                    parse_fail += 1;
                    if shown < 12 { shown += 1; println!("--- PARSE FAIL {es}\n{text}"); }
                } else {
                    eval_err += 1;
                    if std::env::var_os("SHOWERR").is_some() && shown < 12 { shown += 1; println!("--- EVAL ERR {es}\n{text}\n{data}"); }
                }
            }
            Ok(Ok(out)) => {
                if let Ok(v) = serde_json::from_str::<serde_json::Value>(&out) {
                    for k in ["compliant", "not_compliant", "not_applicable"] {
                        if let Some(a) = v.get(k).and_then(|x| x.as_array()) {
                            *status.entry(k.to_string()).or_default() += a.len() as u64;
                        }
                    }
                }
            }
        }
    }
    println!("n={n} parse_fail={parse_fail} eval_err={eval_err} panics={panics} statuses={status:?}");
}

fn main() {
    let args: Vec<String> = std::env::args().collect();
    if args.len() >= 3 && args[1] == "child" {
        child::child_main(&args[2]);
    }
    let noaslr = ensure_no_aslr();
    let checks: Vec<&dyn framework::Check> = vec![&c0415::C04, &c05::C05, &c06::C06, &c08::C08, &c12::C12, &c0415::C15, &c17::C17];
    let flag = |name: &str| -> Option<String> { args.iter().position(|a| a == name).and_then(|i| args.get(i + 1).cloned()) };
    let verif = std::path::PathBuf::from(flag("--verif").unwrap_or_else(|| "/verif".into()));
    match args.get(1).map(|s| s.as_str()) {
        Some("probe") => probe(args.get(2).and_then(|s| s.parse().ok()).unwrap_or(500), args.get(3).and_then(|s| s.parse().ok()).unwrap_or(1)),
        Some("smoke") => {
            println!("noaslr={noaslr}");
            smoke()
        }
        Some("run") => {
            let id = args.get(2).cloned().unwrap_or_default();
            let check = match checks.iter().find(|c| c.id() == id) {
                Some(c) => *c,
                None => {
                    eprintln!("guardsim: unknown property {id}");
                    std::process::exit(2);
                }
            };
            let tier = match flag("--tier").or_else(|| std::env::var("VERIF_TIER").ok()).as_deref() {
                Some("thorough") => framework::Tier::Thorough,
                _ => framework::Tier::Quick,
            };
            let seed = flag("--seed").or_else(|| std::env::var("VERIF_SEED").ok()).and_then(|s| s.parse::<u64>().ok()).unwrap_or(framework::DEFAULT_SEED);
            let workers = flag("--workers").and_then(|s| s.parse().ok()).unwrap_or_else(|| std::thread::available_parallelism().map(|n| n.get()).unwrap_or(4));
            let cfg = framework::RunCfg { verif, tier, seed, workers, scenarios: flag("--scenarios").and_then(|s| s.parse().ok()), write_evidence: !args.iter().any(|a| a == "--no-evidence"), only: flag("--only").and_then(|s| s.parse().ok()) };
            if !noaslr {
                eprintln!("guardsim: note: could not disable ASLR; heap addresses are perturbed but not replay-exact");
            }
            std::process::exit(framework::run_check(check, &cfg));
        }
        Some("liveness") => match selftest::liveness() {
            Ok(()) => {
                println!("guardsim: seam liveness ok (getrandom, clock_gettime, readdir64, read, write are under simulator control)");
            }
            Err(e) => {
                eprintln!("guardsim: SEAM LIVENESS FAILURE: {e}");
                std::process::exit(2);
            }
        },
        Some("selftest") => {
            let n = flag("--n").and_then(|s| s.parse().ok()).unwrap_or(300);
            let seed = flag("--seed").and_then(|s| s.parse().ok()).unwrap_or(framework::DEFAULT_SEED);
            std::process::exit(selftest::selftest(n, seed));
        }
        Some("st-dump") => {
            let n: u64 = args.get(2).and_then(|s| s.parse().ok()).unwrap_or(0);
            let slot: usize = args.get(3).and_then(|s| s.parse().ok()).unwrap_or(0);
            std::env::set_var("GSIM_ST_DUMP", "1");
            let scratch = framework::scratch_dir();
            let mut w = exec::Work::new(&scratch, slot);
            use framework::Check;
            let _ = selftest::SelfTest.run_scenario(&mut w, framework::DEFAULT_SEED, n, framework::Tier::Quick);
            drop(w);
            exec::rm_rf(&scratch);
        }
        Some("replay") => {
            let file = args.get(2).cloned().unwrap_or_default();
            std::process::exit(framework::run_replay(&checks, std::path::Path::new(&file)));
        }
        _ => {
            eprintln!("usage: guardsim run <ID> [--tier quick|thorough] [--seed N] [--workers W] [--scenarios K] | replay <file> | selftest");
            std::process::exit(2);
        }
    }
}
