//! C17 (partial) — input parameters: the verdicts do not depend on the order in which the
//! parameter files reach the merge (argument order, directory walk order under -a / -m /
//! neither with simulated readdir order and mtime ties), and a key defined by two sources is
//! an error, never a silent choice. The equality with the single pre-merged document for
//! one fixed order is an input-only relation; it serves as the reference model.

use crate::c05::{files_from_json, files_to_json, outcome_class};
use crate::c12::parse_json_stream;
use crate::doc::{self, DocFmt, J};
use crate::exec::{FileSpec, Work};
use crate::framework::*;
use crate::prng::{derive, Rng};
use crate::proto::*;
use crate::rules::{self, GenOpts};
use serde_json::{json, Value};
use std::collections::BTreeMap;

pub struct C17;

#[derive(Clone, Debug)]
pub struct Scn17 {
    pub files: Vec<FileSpec>,
    pub params: Vec<String>,
    pub overlap: bool,
    /// number of data files (1 or 2)
    pub ndata: usize,
}

#[derive(Clone, Debug)]
pub struct Dlv17 {
    pub kind: String,
    pub argv: Vec<String>,
    pub dir_mode: String,
    pub dir_seed: u64,
    pub mtimes: BTreeMap<String, i64>,
    /// data arrives on stdin (first data file only)
    pub stdin: Option<String>,
    /// transparent read faults (short reads, EINTR): must not change anything
    pub faults: FaultSpec,
    /// a parameter file with at least one key is delivered twice: its keys overlap with themselves
    pub dup: bool,
}

fn step(argv: &[String], stdin: &Option<String>, root: &str) -> Step {
    let sub = |s: &String| -> String {
        if let Some(rest) = s.strip_prefix("@/") {
            format!("{}{}", root, rest)
        } else {
            s.clone()
        }
    };
    Step { kind: "cli".into(), argv: argv.iter().map(sub).collect(), stdin: stdin.as_ref().map(sub), out_path: None, rc: None, label: String::new() }
}

fn sv(xs: &[&str]) -> Vec<String> {
    xs.iter().map(|s| s.to_string()).collect()
}

/// per report, in output order: (status, compliant, not_applicable, not_compliant rule names)
fn verdicts(stdout: &[u8], structured: bool) -> Option<Value> {
    let reports: Vec<Value> = if structured { serde_json::from_slice::<Value>(stdout).ok()?.as_array()?.clone() } else { parse_json_stream(stdout)? };
    if reports.is_empty() {
        return None;
    }
    let mut out = Vec::new();
    for v in reports {
        let names = |k: &str| -> Vec<String> {
            let mut n: Vec<String> = v.get(k).and_then(|a| a.as_array()).map(|a| a.iter().filter_map(|s| s.as_str().map(String::from)).collect()).unwrap_or_default();
            n.sort();
            n
        };
        let mut nc: Vec<String> = v
            .get("not_compliant")
            .and_then(|a| a.as_array())
            .map(|a| a.iter().filter_map(|e| e.get("Rule").and_then(|r| r.get("name")).and_then(|n| n.as_str()).map(String::from)).collect())
            .unwrap_or_default();
        nc.sort();
        out.push(json!({"status": v.get("status"), "compliant": names("compliant"), "not_applicable": names("not_applicable"), "not_compliant": nc}));
    }
    Some(Value::Array(out))
}

impl C17 {
    fn gen(&self, seed: u64, rep: &mut Report) -> (Scn17, String) {
        let mut r = Rng::stream(seed, "workload");
        // a document with enough top-level keys to split
        let mut full = doc::gen_doc(&mut r);
        if let J::Map(kv) = &mut full {
            let mut i = 0;
            while kv.len() < 4 {
                let k = format!("extra{}", i);
                kv.push((k, doc::gen_scalar(&mut r)));
                i += 1;
            }
        }
        let o = GenOpts { functions: r.chance(1, 4), default_clauses: false, ..Default::default() };
        let prog = rules::gen_prog(&mut r, &full, &o);
        let kv = match &full {
            J::Map(kv) => kv.clone(),
            _ => vec![],
        };
        let nparams = 1 + r.usize(3);
        // assign each top-level key to data (0) or a parameter file (1..=nparams); data keeps >= 1
        let mut assign: Vec<usize> = kv.iter().map(|_| r.usize(nparams + 1)).collect();
        if !assign.iter().any(|a| *a == 0) {
            assign[0] = 0;
        }
        for p in 1..=nparams {
            if !assign.iter().any(|a| *a == p) {
                if let Some(i) = (0..assign.len()).find(|i| assign[*i] == 0 && assign.iter().filter(|a| **a == 0).count() > 1) {
                    assign[i] = p;
                }
            }
        }
        let part = |p: usize| -> J { J::Map(kv.iter().zip(assign.iter()).filter(|(_, a)| **a == p).map(|(kv, _)| kv.clone()).collect()) };
        let mut parts: Vec<J> = (0..=nparams).map(part).collect();
        let overlap = r.chance(1, 4);
        if overlap {
            // the same key in two sources
            let (k, v) = kv[r.usize(kv.len())].clone();
            let src = assign[kv.iter().position(|(kk, _)| *kk == k).unwrap()];
            let mut dst = r.usize(nparams + 1);
            if dst == src {
                dst = (dst + 1) % (nparams + 1);
            }
            if dst == 0 && src == 0 {
                dst = 1;
            }
            if let J::Map(m) = &mut parts[dst] {
                m.push((k, if r.chance(1, 2) { v } else { doc::gen_scalar(&mut r) }));
            }
            rep.count("gen.overlap", 1);
        }
        // pre-merged reference document: parameter files in index order, then data
        let mut merged: Vec<(String, J)> = Vec::new();
        for p in 1..=nparams {
            if let J::Map(m) = &parts[p] {
                merged.extend(m.iter().cloned());
            }
        }
        if let J::Map(m) = &parts[0] {
            merged.extend(m.iter().cloned());
        }
        // a second rules file (used by the plain-mode probe only: EVERY rules file is evaluated
        // against the merged document, not just the first)
        let prog1 = rules::gen_prog(&mut Rng::stream(seed, "workload-r1"), &full, &o);
        let mut files = vec![
            FileSpec { rel: "rules/r0.guard".into(), bytes: prog.print().into_bytes(), mtime_ns: 0 },
            FileSpec { rel: "rules/r1.guard".into(), bytes: prog1.print().into_bytes(), mtime_ns: 0 },
            FileSpec { rel: "data/d0.json".into(), bytes: doc::render(&parts[0], DocFmt::JsonPretty).into_bytes(), mtime_ns: 0 },
            FileSpec { rel: "merged/m0.json".into(), bytes: doc::render(&J::Map(merged.clone()), DocFmt::JsonPretty).into_bytes(), mtime_ns: 0 },
        ];
        // a second data file with the same keys and other values: the parameters must be
        // merged into EVERY data file
        let ndata = if r.chance(1, 2) { 2 } else { 1 };
        if ndata == 2 {
            let d1: Vec<(String, J)> = match &parts[0] {
                J::Map(kv) => kv.iter().map(|(k, v)| (k.clone(), doc::mutate(&mut r, v))).collect(),
                _ => vec![],
            };
            let nparam_keys = merged.len() - match &parts[0] { J::Map(kv) => kv.len(), _ => 0 };
            let mut m1: Vec<(String, J)> = merged[..nparam_keys].to_vec();
            m1.extend(d1.iter().cloned());
            files.push(FileSpec { rel: "data/d1.json".into(), bytes: doc::render(&J::Map(d1), DocFmt::JsonPretty).into_bytes(), mtime_ns: 0 });
            files.push(FileSpec { rel: "merged/m1.json".into(), bytes: doc::render(&J::Map(m1), DocFmt::JsonPretty).into_bytes(), mtime_ns: 0 });
            rep.count("gen.two_data_files", 1);
        }
        let mut params = Vec::new();
        let mut rx = Rng::stream(seed, "workload-ext");
        let same_base = r.chance(1, 3);
        if same_base {
            rep.count("gen.same_base_name_layout", 1);
        }
        let dotted = !same_base && r.chance(1, 4);
        if dotted {
            rep.count("gen.dot_file_layout", 1);
        }
        // some or all parameter files are reached through symbolic links (a mounted config
        // map, a stow / nix tree): `params/..` holds the link, `store/..` the content
        let linked = r.below(6);
        if linked < 2 {
            rep.count("gen.symlinked_parameter_files", 1);
        }
        for p in 1..=nparams {
            let fmt = *r.pick(&[DocFmt::JsonPretty, DocFmt::YamlBlock, DocFmt::JsonCompact]);
            // an empty parameter file would be rejected as "empty" — keep at least `{}`
            // layouts: distinct names in one directory, or the same base name in
            // different sub-directories (common/params.json, prod/params.json)
            // (a third layout: names that start with a dot - `.env.yaml`, `.hidden/params.json` - are
            // files like any other)
            let rel = if same_base { format!("params/s{}/params.json", p) } else if dotted && p == nparams { format!("params/.p{}.{}", p, fmt.ext()) } else if dotted && p == 1 && nparams > 1 { format!("params/.hidden/q{}.{}", p, fmt.ext()) } else { format!("params/p{}.{}", p, fmt.ext()) };
            let fmt = if same_base { DocFmt::JsonPretty } else { fmt };
            // every extension the tool accepts for data is accepted for parameter files too
            // (`.yml`, `.jsn`, `.template`); drawn from a stream of its own
            let rel = if !same_base && rx.chance(1, 3) {
                let ext = match fmt {
                    DocFmt::YamlBlock => *rx.pick(&["yml", "template"]),
                    _ => *rx.pick(&["jsn", "template"]),
                };
                rep.count("gen.other_accepted_extension", 1);
                format!("{}.{}", rel.rsplit_once('.').map(|(a, _)| a).unwrap_or(&rel), ext)
            } else {
                rel
            };
            if linked == 0 || (linked == 1 && p == nparams) {
                let store = format!("store/{}", rel.trim_start_matches("params/"));
                let up = "../".repeat(rel.matches('/').count());
                files.push(FileSpec { rel: store.clone(), bytes: doc::render(&parts[p], fmt).into_bytes(), mtime_ns: 0 });
                files.push(FileSpec { rel: format!("{} -> {}{}", rel, up, store), bytes: vec![], mtime_ns: 0 });
            } else {
                files.push(FileSpec { rel: rel.clone(), bytes: doc::render(&parts[p], fmt).into_bytes(), mtime_ns: 0 });
            }
            params.push(rel);
        }
        // files whose names merely CONTAIN a supported extension are not parameter files; their
        // content would clash with the data if they were merged
        if r.chance(1, 4) {
            let clash = doc::render(&parts[0], DocFmt::JsonPretty).into_bytes();
            files.push(FileSpec { rel: "params/p1.json.bak".into(), bytes: clash.clone(), mtime_ns: 0 });
            files.push(FileSpec { rel: "params/extra.yaml.disabled".into(), bytes: clash, mtime_ns: 0 });
            rep.count("gen.near_miss_extensions", 1);
        }
        files.push(FileSpec { rel: "plink -> params".into(), bytes: vec![], mtime_ns: 0 });
        for (i, f) in files.iter_mut().enumerate() {
            f.mtime_ns = (1_650_000_000 + 17 * i as i64) * 1_000_000_000;
        }
        (Scn17 { files, params, overlap, ndata }, prog.print())
    }

    fn run(&self, w: &mut Work, argv: &[String], stdin: &Option<String>, dir_mode: &str, dir_seed: u64, faults: &FaultSpec, rep: &mut Report) -> (String, Vec<u8>) {
        let mut req = w.req();
        req.sim.dir_mode = dir_mode.to_string();
        req.sim.dir_seed = dir_seed;
        req.sim.faults = faults.clone();
        req.steps = vec![step(argv, stdin, &w.root)];
        let o = w.run(&req);
        rep.absorb_exec(&o);
        match o.steps.first() {
            Some(s) if o.died_in.is_none() => (outcome_class(s), s.stdout.clone()),
            _ => (format!("died:{}", o.end), vec![]),
        }
    }

    fn deliveries(&self, r: &mut Rng, scn: &Scn17, k: usize) -> Vec<Dlv17> {
        let mut out = Vec::new();
        for _ in 0..k {
            let structured = r.chance(1, 2);
            // structured: json (verdicts compared) or another format (exit code compared)
            let sfmt = *r.pick(&["json", "json", "json", "yaml", "junit", "sarif"]);
            let tail = if structured { sv(&["--structured", "-o", sfmt, "-S", "none"]) } else { sv(&["-o", "json", "-S", "none"]) };
            let stdin_mode = r.chance(1, 6);
            let mut argv = sv(&["cfn-guard", "validate", "-r", "@/rules/r0.guard"]);
            if !stdin_mode {
                if scn.ndata == 2 && r.chance(1, 2) {
                    argv.extend(sv(&["-d", "@/data"]));
                } else {
                    argv.extend(sv(&["-d", "@/data/d0.json"]));
                    if scn.ndata == 2 {
                        argv.extend(sv(&["-d", "@/data/d1.json"]));
                    }
                }
            }
            let mut mtimes = BTreeMap::new();
            let kind;
            let mut dup = false;
            let mut dir_mode = "asc".to_string();
            if r.chance(1, 2) || scn.params.len() == 1 {
                let p = r.perm(scn.params.len());
                if r.chance(1, 2) {
                    argv.push("-i".into());
                    for i in &p {
                        argv.push(format!("@/{}", scn.params[*i]));
                    }
                } else {
                    for i in &p {
                        argv.push("-i".into());
                        argv.push(format!("@/{}", scn.params[*i]));
                    }
                }
                kind = format!("args-{}", if structured { "structured" } else { "plain" });
                if !stdin_mode && r.chance(1, 10) {
                    // the data file itself named as a parameter file too: every key of it overlaps
                    argv.push("-i".into());
                    argv.push("@/data/d0.json".into());
                    dup = true;
                } else if r.chance(1, 8) {
                    // the same parameter file once more (only meaningful if it defines a key)
                    let i = r.usize(scn.params.len());
                    let nonempty = scn.files.iter().find(|f| f.rel == scn.params[i] || f.rel == format!("store/{}", scn.params[i].trim_start_matches("params/"))).map(|f| f.bytes.iter().any(|b| *b == b':')).unwrap_or(false);
                    if nonempty {
                        argv.push("-i".into());
                        argv.push(format!("@/{}", scn.params[i]));
                        dup = true;
                    }
                }
            } else {
                let flag = *r.pick(&["", "-a", "-m", "-m"]);
                argv.push("-i".into());
                // (`plink` is a symbolic link to the directory)
                argv.push(if r.chance(1, 5) { "@/plink".into() } else { "@/params".into() });
                if !flag.is_empty() {
                    argv.push(flag.into());
                }
                dir_mode = (*r.pick(&["shuffle", "shuffle", "desc"])).to_string();
                let pat = r.below(3);
                let base = 1_600_000_000i64 + r.range(0, 100_000);
                for (i, p) in scn.params.iter().enumerate() {
                    let t = match pat {
                        0 => base + r.range(0, 1000),
                        1 => base,
                        _ => base - i as i64 * 60,
                    };
                    mtimes.insert(p.clone(), t * 1_000_000_000);
                }
                kind = format!("dir{}-{}", flag, if structured { "structured" } else { "plain" });
            }
            argv.extend(tail);
            let kind = if stdin_mode { format!("stdin-{}", kind) } else { kind };
            let faults = if r.chance(1, 2) { FaultSpec::Random { seed: r.next(), rates: RatesSpec { read_short: *r.pick(&[64u8, 160, 250]), read_eintr: *r.pick(&[0u8, 40]), write_short: 60, write_eintr: 10, max_short: 1 + r.below(40) as u32, ..Default::default() } } } else { FaultSpec::Off };
            out.push(Dlv17 { kind, argv, dir_mode, dir_seed: r.next(), mtimes, stdin: if stdin_mode { Some("@/data/d0.json".into()) } else { None }, faults, dup });
        }
        out
    }

    fn reference(&self, w: &mut Work, rep: &mut Report) -> (String, Option<Value>) {
        let (c, out) = self.run(w, &sv(&["cfn-guard", "validate", "-r", "@/rules/r0.guard", "-d", "@/merged", "--structured", "-o", "json", "-S", "none"]), &None, "asc", 1, &FaultSpec::Off, rep);
        let v = verdicts(&out, true);
        (c, v)
    }

    fn judge(&self, w: &mut Work, scn: &Scn17, d: &Dlv17, refc: &str, refv: &Option<Value>, rep: &mut Report) -> Option<(String, String)> {
        let mut files = scn.files.clone();
        for f in files.iter_mut() {
            if let Some(m) = d.mtimes.get(&f.rel) {
                f.mtime_ns = *m;
            }
        }
        w.materialise(&files);
        let (c, out) = self.run(w, &d.argv, &d.stdin, &d.dir_mode, d.dir_seed, &d.faults, rep);
        if c.starts_with("died") || c.starts_with("panic") {
            rep.count("skipped.crash_is_c08", 1);
            return None;
        }
        rep.classes.push(format!("{}|{}|{}", d.kind, if scn.overlap { "overlap" } else { "disjoint" }, c));
        rep.count("judged", 1);
        if d.dup && !scn.overlap {
            rep.count("reach.duplicate_parameter_file", 1);
            if c == "exit:0" || c == "exit:19" {
                return Some((format!("{}/duplicate-accepted", d.kind), format!("a parameter file was given twice (its keys overlap with themselves) but `{}` exited with {}", d.argv.join(" ").replace("@/", ""), c)));
            }
            return None;
        }
        if scn.overlap {
            rep.count("reach.overlap_delivered", 1);
            if c == "exit:0" || c == "exit:19" {
                return Some((format!("{}/overlap-accepted", d.kind), format!("two sources define the same top-level key but `{}` exited with {}", d.argv.join(" ").replace("@/", ""), c)));
            }
            return None;
        }
        if d.kind.starts_with("tworules") {
            // plain mode, two rules files: the reference is the SAME command on the pre-merged
            // documents (plain output has one report per rules file x data file)
            let mut rargv: Vec<String> = Vec::new();
            let mut skip = false;
            for a in &d.argv {
                if skip {
                    if a.starts_with('-') {
                        skip = false;
                    } else {
                        continue;
                    }
                }
                if a == "-i" {
                    skip = true;
                    continue;
                }
                rargv.push(a.replace("@/data/d", "@/merged/m"));
            }
            let (rc, rout) = self.run(w, &rargv, &None, "asc", 1, &FaultSpec::Off, rep);
            rep.count("reach.two_rules_files_plain", 1);
            if !(rc == "exit:0" || rc == "exit:19") {
                if c == "exit:0" || c == "exit:19" {
                    return Some((format!("{}/error-lost", d.kind), format!("the pre-merged documents give {rc} but the parameterised run gives {c}")));
                }
                return None;
            }
            if c != rc {
                return Some((format!("{}/exit", d.kind), format!("pre-merged documents exit {rc}, `{}` exits {c}", d.argv.join(" ").replace("@/", ""))));
            }
            let (got, want) = (verdicts(&out, false), verdicts(&rout, false));
            if got.is_none() || want.is_none() {
                return Some((format!("{}/unparsable", d.kind), "output is not the expected JSON".into()));
            }
            if got != want {
                return Some((format!("{}/verdicts", d.kind), format!("per-rule verdicts of some rules file differ from the pre-merged documents for `{}`", d.argv.join(" ").replace("@/", ""))));
            }
            return None;
        }
        if !(refc == "exit:0" || refc == "exit:19") && d.stdin.is_some() && scn.ndata > 1 {
            // the reference covers both data files, stdin only the first: which one errs is unknown
            rep.count("skipped.reference_error_with_stdin", 1);
            return None;
        }
        if !(refc == "exit:0" || refc == "exit:19") {
            // the pre-merged document errors on its own: the merged run must not succeed either
            if c == "exit:0" || c == "exit:19" {
                return Some((format!("{}/error-lost", d.kind), format!("the pre-merged document gives {refc} but the parameterised run gives {c}")));
            }
            return None;
        }
        let structured = d.kind.ends_with("structured");
        let got = verdicts(&out, structured);
        // data on stdin is the first data file only
        let (refc, refv): (String, Option<Value>) = if d.stdin.is_some() {
            let first = refv.as_ref().and_then(|v| v.as_array()).and_then(|a| a.first().cloned());
            let fails = first.as_ref().map(|f| f.get("status").and_then(|s| s.as_str()) == Some("FAIL")).unwrap_or(false);
            (if fails { "exit:19".into() } else { "exit:0".into() }, first.map(|f| Value::Array(vec![f])))
        } else {
            (refc.to_string(), refv.clone())
        };
        let refc = refc.as_str();
        let refv = &refv;
        if c != refc {
            return Some((format!("{}/exit", d.kind), format!("pre-merged document exits {refc}, `{}` exits {c}", d.argv.join(" ").replace("@/", ""))));
        }
        if structured && !d.argv.windows(2).any(|w| w[0] == "-o" && w[1] == "json") {
            // yaml / junit / sarif: the exit code has been compared
            rep.count("judged.exit_only_format", 1);
            return None;
        }
        if got.is_none() || refv.is_none() {
            return Some((format!("{}/unparsable", d.kind), "output is not the expected JSON".into()));
        }
        if &got != refv {
            return Some((format!("{}/verdicts", d.kind), format!("per-rule verdicts differ from the pre-merged document for `{}`", d.argv.join(" ").replace("@/", ""))));
        }
        None
    }

    fn check_one(&self, w: &mut Work, scn: &Scn17, d: &Dlv17, rep: &mut Report) -> Option<(String, String)> {
        w.materialise(&scn.files);
        let (refc, refv) = self.reference(w, rep);
        self.judge(w, scn, d, &refc, &refv, rep)
    }

    fn to_json(&self, scn: &Scn17, d: &Dlv17) -> Value {
        json!({"files": files_to_json(&scn.files), "params": scn.params, "overlap": scn.overlap, "ndata": scn.ndata,
               "delivery": {"kind": d.kind, "argv": d.argv, "dir_mode": d.dir_mode, "dir_seed": d.dir_seed, "mtimes": d.mtimes, "stdin": d.stdin, "faults": serde_json::to_value(&d.faults).unwrap(), "dup": d.dup}})
    }
}

impl Check for C17 {
    fn id(&self) -> &'static str {
        "C17"
    }
    fn level(&self) -> &'static str {
        "exploration"
    }
    fn scenarios(&self, tier: Tier) -> u64 {
        match tier {
            Tier::Quick => 1200,
            Tier::Thorough => 12000,
        }
    }
    fn rule_text(&self) -> String {
        "scenario n = a generated rules file over a document with >= 4 top-level keys; the document is split at seeded positions into a data file and 1-3 parameter files (JSON / YAML), in a quarter of the scenarios with one key deliberately defined by two sources. Each scenario is delivered k times: -i arguments in seeded permutations (one flag with several values, or repeated flags), a parameter directory under -a / -m / neither with simulated readdir permutation and mtimes (distinct, all equal, stepped backwards); plain -o json and --structured -o json. Oracle: disjoint sources — exit code and per-rule PASS/FAIL/SKIP sets equal those of the single pre-merged document; overlapping sources — exit not in {0, 19}. distinct_nontrivial = distinct (delivery kind, disjoint/overlap, exit) triples".into()
    }
    fn assumptions(&self) -> Vec<String> {
        vec![
            "that merging in ONE fixed order equals the pre-merged document is an input-only relation; it is used as the reference model, not claimed as decided by simulation".into(),
            "only verdicts (per-rule status sets, file status, exit code) are compared; the order of keys in the merged map legitimately follows the delivery order".into(),
        ]
    }
    fn required_reach(&self, _tier: Tier) -> Vec<(&'static str, u64)> {
        vec![("judged", 1), ("reach.overlap_delivered", 1)]
    }

    fn run_scenario(&self, w: &mut Work, base_seed: u64, n: u64, tier: Tier) -> Report {
        let mut rep = Report::new(n);
        let seed = derive(base_seed, "C17", n);
        let (scn, rules_text) = self.gen(seed, &mut rep);
        w.materialise(&scn.files);
        let (refc, refv) = self.reference(w, &mut rep);
        rep.count(&format!("reference.{}", refc.replace(':', "_")), 1);
        let k = match tier {
            Tier::Quick => 6,
            Tier::Thorough => 12,
        };
        let mut r = Rng::stream(seed, "deliveries");
        let mut ds = self.deliveries(&mut r, &scn, k);
        {
            // plain mode with two rules files (every rules file must see the merged parameters)
            let mut r2 = Rng::stream(seed, "tworules");
            let mut argv = sv(&["cfn-guard", "validate"]);
            if r2.chance(1, 2) {
                argv.extend(sv(&["-r", "@/rules/r0.guard", "-r", "@/rules/r1.guard"]));
            } else {
                argv.extend(sv(&["-r", "@/rules"]));
            }
            argv.extend(sv(&["-d", "@/data/d0.json"]));
            if scn.ndata == 2 {
                argv.extend(sv(&["-d", "@/data/d1.json"]));
            }
            for i in r2.perm(scn.params.len()) {
                argv.push("-i".into());
                argv.push(format!("@/{}", scn.params[i]));
            }
            argv.extend(sv(&["-o", "json", "-S", "none"]));
            ds.push(Dlv17 { kind: "tworules-plain".into(), argv, dir_mode: "asc".into(), dir_seed: 1, mtimes: BTreeMap::new(), stdin: None, faults: FaultSpec::Off, dup: false });
        }
        let mut done: Vec<String> = Vec::new();
        for d in &ds {
            rep.count(&format!("delivery.{}", d.kind), 1);
            if let Some((sig, what)) = self.judge(w, &scn, d, &refc, &refv, &mut rep) {
                if done.contains(&sig) {
                    continue;
                }
                done.push(sig.clone());
                let mut crep = Report::default();
                let again = self.check_one(w, &scn, d, &mut crep);
                rep.execs += crep.execs;
                if again.as_ref().map(|(s, _)| s) != Some(&sig) {
                    rep.count("harness.unconfirmed_findings", 1);
                    continue;
                }
                let mut md = d.clone();
                let mut execs = 0;
                if w.seen.insert(sig.clone()) {
                    let mut mrep = Report::default();
                    for cand in [Dlv17 { faults: FaultSpec::Off, ..md.clone() }, Dlv17 { dir_mode: "asc".into(), ..md.clone() }, Dlv17 { mtimes: BTreeMap::new(), ..md.clone() }] {
                        if self.check_one(w, &scn, &cand, &mut mrep).map(|(s, _)| s) == Some(sig.clone()) {
                            md = cand;
                        }
                    }
                    execs = mrep.execs;
                    rep.execs += execs;
                }
                rep.violations.push(Violation { signature: sig, what, replay: self.to_json(&scn, &md), shrink_execs: execs, minimised: execs > 0 });
            }
        }
        if n < 3 {
            rep.sample = Some(json!({
                "rules": rules_text.chars().take(500).collect::<String>(),
                "sources": scn.files.iter().filter(|f| !f.rel.starts_with("rules/")).map(|f| json!({"rel": f.rel, "text": String::from_utf8_lossy(&f.bytes).chars().take(200).collect::<String>()})).collect::<Vec<_>>(),
                "overlap": scn.overlap,
                "reference": refc,
                "deliveries": ds.iter().map(|d| d.argv.join(" ")).collect::<Vec<_>>(),
            }));
        }
        rep
    }

    fn replay(&self, w: &mut Work, v: &Value) -> Vec<Violation> {
        let scn = Scn17 {
            files: files_from_json(v.get("files").unwrap_or(&Value::Null)),
            params: serde_json::from_value(v.get("params").cloned().unwrap_or(Value::Null)).unwrap_or_default(),
            overlap: v.get("overlap").and_then(|b| b.as_bool()).unwrap_or(false),
            ndata: v.get("ndata").and_then(|b| b.as_u64()).unwrap_or(1) as usize,
        };
        let dv = match v.get("delivery") {
            Some(d) => d,
            None => return vec![],
        };
        let d = Dlv17 {
            kind: dv.get("kind").and_then(|s| s.as_str()).unwrap_or("").to_string(),
            argv: serde_json::from_value(dv.get("argv").cloned().unwrap_or(Value::Null)).unwrap_or_default(),
            dir_mode: dv.get("dir_mode").and_then(|s| s.as_str()).unwrap_or("asc").to_string(),
            dir_seed: dv.get("dir_seed").and_then(|s| s.as_u64()).unwrap_or(1),
            mtimes: serde_json::from_value(dv.get("mtimes").cloned().unwrap_or(Value::Null)).unwrap_or_default(),
            stdin: dv.get("stdin").and_then(|s| s.as_str()).map(String::from),
            faults: serde_json::from_value(dv.get("faults").cloned().unwrap_or(Value::Null)).unwrap_or(FaultSpec::Off),
            dup: dv.get("dup").and_then(|b| b.as_bool()).unwrap_or(false),
        };
        let mut rep = Report::default();
        self.check_one(w, &scn, &d, &mut rep).into_iter().map(|(sig, what)| Violation { signature: sig, what, replay: Value::Null, shrink_execs: 0, minimised: false }).collect()
    }
}
