//! Request / result records exchanged between a worker and the one-shot child process
//! that performs one simulated execution ("Exec").

use crate::seams::{Act, ClockMode, DirMode, FaultEv, FaultPlan, FaultRates, Seam, SimCfg};
use serde::{Deserialize, Serialize};

#[derive(Clone, Debug, Serialize, Deserialize, PartialEq)]
pub struct FaultEvSpec {
    pub seam: String,
    pub idx: u32,
    pub act: String,
    pub arg: u32,
}

#[derive(Clone, Debug, Serialize, Deserialize, Default, PartialEq)]
pub struct RatesSpec {
    pub read_short: u8,
    pub read_eintr: u8,
    pub read_eio: u8,
    pub read_eof: u8,
    pub write_short: u8,
    pub write_eintr: u8,
    pub open_fail: u8,
    pub max_short: u32,
}

#[derive(Clone, Debug, Serialize, Deserialize, PartialEq)]
#[serde(tag = "mode")]
pub enum FaultSpec {
    #[serde(rename = "off")]
    Off,
    #[serde(rename = "random")]
    Random { seed: u64, rates: RatesSpec },
    #[serde(rename = "script")]
    Script { events: Vec<FaultEvSpec> },
}

#[derive(Clone, Debug, Serialize, Deserialize, PartialEq)]
pub struct SimSpec {
    pub entropy_seed: u64,
    /// "frozen" | "steady" | "wild"
    pub clock_mode: String,
    pub clock_seed: u64,
    pub real_base_s: i64,
    pub mono_base_s: i64,
    /// "natural" | "shuffle" | "asc" | "desc"
    pub dir_mode: String,
    pub dir_seed: u64,
    pub faults: FaultSpec,
}

impl SimSpec {
    /// the calm reference environment
    pub fn calm() -> SimSpec {
        SimSpec {
            entropy_seed: 0x5eed_0000_0000_0001,
            clock_mode: "steady".into(),
            clock_seed: 1,
            real_base_s: 1_790_000_000,
            mono_base_s: 1000,
            dir_mode: "asc".into(),
            dir_seed: 1,
            faults: FaultSpec::Off,
        }
    }
    pub fn to_cfg(&self, root: &str, out_dir: &str) -> SimCfg {
        SimCfg {
            entropy_seed: self.entropy_seed,
            clock_mode: match self.clock_mode.as_str() {
                "frozen" => ClockMode::Frozen,
                "wild" => ClockMode::Wild,
                _ => ClockMode::Steady,
            },
            clock_seed: self.clock_seed,
            real_base_s: self.real_base_s,
            mono_base_s: self.mono_base_s,
            dir_mode: match self.dir_mode.as_str() {
                "natural" => DirMode::Natural,
                "shuffle" => DirMode::Shuffle,
                "desc" => DirMode::Desc,
                _ => DirMode::Asc,
            },
            dir_seed: self.dir_seed,
            faults: match &self.faults {
                FaultSpec::Off => FaultPlan::Off,
                FaultSpec::Random { seed, rates } => FaultPlan::Random {
                    seed: *seed,
                    rates: FaultRates {
                        read_short: rates.read_short,
                        read_eintr: rates.read_eintr,
                        read_eio: rates.read_eio,
                        read_eof: rates.read_eof,
                        write_short: rates.write_short,
                        write_eintr: rates.write_eintr,
                        open_fail: rates.open_fail,
                        max_short: rates.max_short,
                    },
                },
                FaultSpec::Script { events } => FaultPlan::Script(
                    events
                        .iter()
                        .filter_map(|e| {
                            Some(FaultEv {
                                seam: Seam::from_name(&e.seam)?,
                                idx: e.idx,
                                act: Act::from_name(&e.act)?,
                                arg: e.arg,
                            })
                        })
                        .collect(),
                ),
            },
            root: root.as_bytes().to_vec(),
            out_dir: out_dir.as_bytes().to_vec(),
        }
    }
}

pub fn ev_to_spec(e: &FaultEv) -> FaultEvSpec {
    FaultEvSpec { seam: e.seam.name().into(), idx: e.idx, act: e.act.name().into(), arg: e.arg }
}

#[derive(Clone, Debug, Serialize, Deserialize, PartialEq)]
pub struct RunChecksSpec {
    pub data: String,
    pub data_name: String,
    pub rules: String,
    pub rules_name: String,
    pub verbose: bool,
}

/// evaluator-internal schedule (needs the guard_verif hooks in /repo)
#[derive(Clone, Debug, Serialize, Deserialize, PartialEq, Default)]
pub struct MemoSpec {
    pub seed: u64,
    /// probability (x/256) that a named-rule memo lookup is forced to miss
    pub rule_miss: u16,
    /// probability (x/256) that a variable memo lookup is forced to miss
    pub var_miss: u16,
    /// probability (x/256) that a scope resolves its declared variables eagerly on entry
    pub eager: u16,
}

#[derive(Clone, Debug, Serialize, Deserialize, PartialEq)]
pub struct Step {
    /// "cli" | "run_checks"
    pub kind: String,
    #[serde(default)]
    pub argv: Vec<String>,
    /// path of the file that plays stdin (absolute); None = empty stdin
    #[serde(default)]
    pub stdin: Option<String>,
    /// emulation of main.rs for `parse-tree -o` / `rulegen -o`: the writer is this file
    #[serde(default)]
    pub out_path: Option<String>,
    #[serde(default)]
    pub rc: Option<RunChecksSpec>,
    /// label used by oracles to pair steps across executions
    #[serde(default)]
    pub label: String,
}

#[derive(Clone, Debug, Serialize, Deserialize, PartialEq)]
pub struct ExecReq {
    /// scenario root, absolute, with trailing slash
    pub root: String,
    /// where the child writes its results (outside root)
    pub res_dir: String,
    #[serde(default)]
    pub cwd: Option<String>,
    pub env: Vec<(String, String)>,
    pub sim: SimSpec,
    /// 0 = leave the heap alone
    pub heap_seed: u64,
    #[serde(default)]
    pub memo: Option<MemoSpec>,
    /// run all steps on ONE thread (a long-lived host calling the library repeatedly);
    /// default: a fresh thread per step
    #[serde(default)]
    pub same_thread: bool,
    /// CPU allowance per step in seconds (None: 10)
    #[serde(default)]
    pub cpu_limit_s: Option<u64>,
    /// before the first step, put a long stale file at every step's `-o` path (left over by an
    /// earlier run): what a command writes there must not depend on it
    #[serde(default)]
    pub stale_out: bool,
    pub steps: Vec<Step>,
}

#[derive(Clone, Debug, Serialize, Deserialize, Default, PartialEq)]
pub struct StepRes {
    pub idx: usize,
    /// "exit" (Ok(code)) | "err" (Err(e): main prints and exits 255) | "panic" | "usage" (clap rejected argv)
    pub outcome: String,
    pub code: i32,
    #[serde(default)]
    pub err: String,
    #[serde(default)]
    pub panic_loc: String,
    #[serde(default)]
    pub panic_msg: String,
}

#[derive(Clone, Debug, Serialize, Deserialize, Default)]
pub struct FinalRes {
    pub trace: u64,
    pub events: Vec<FaultEvSpec>,
    pub reads: u64,
    pub writes: u64,
    pub opens: u64,
    pub getrandoms: u64,
    pub clock_calls: u64,
    pub dir_scans: u64,
    pub dir_entries: u64,
    pub fired: Vec<u64>,
    pub mono_advance_ns: u64,
    pub real_backward_jumps: u64,
    pub short_read_split_utf8: u64,
    pub short_write_split_utf8: u64,
    pub bytes_read: u64,
    pub bytes_written: u64,
    #[serde(default)]
    pub hard_faulted: Vec<String>,
    #[serde(default)]
    pub memo_rule_lookups: u64,
    #[serde(default)]
    pub memo_rule_forced: u64,
    #[serde(default)]
    pub memo_var_lookups: u64,
    #[serde(default)]
    pub memo_var_forced: u64,
    #[serde(default)]
    pub memo_eager: u64,
}

/// What the worker assembles after the child is gone.
#[derive(Clone, Debug, Default)]
pub struct StepOut {
    pub res: StepRes,
    pub stdout: Vec<u8>,
    pub stderr: Vec<u8>,
    /// content of out_path if the step had one
    pub outfile: Option<Vec<u8>>,
}

#[derive(Clone, Debug, Default)]
pub struct ExecOut {
    /// how the child process ended: "ok" | "exit:<code>" (process::exit inside the tool) | "signal:<n>" | "timeout"
    pub end: String,
    pub steps: Vec<StepOut>,
    /// index of the step that was running when the process ended abnormally
    pub died_in: Option<usize>,
    pub fin: Option<FinalRes>,
    pub child_stderr: Vec<u8>,
}
