//! Document model, generator, printers (JSON compact/pretty, YAML flow/block), mutation
//! and one-step shrinking.

use crate::prng::Rng;

#[derive(Clone, Debug, PartialEq)]
pub enum J {
    Null,
    Bool(bool),
    Int(i64),
    Float(f64),
    Str(String),
    List(Vec<J>),
    Map(Vec<(String, J)>),
}

pub const KEYS: &[&str] = &["a", "b", "c", "d", "k1", "k2", "name", "tags", "items", "m", "n", "v", "flag", "size", "kind", "bucket_name", "max_size"];
pub const STRS: &[&str] = &[
    "", "x", "y", "abc", "ABC", "true", "null", "10", "007", "a b", "a/b", "x-y_z", "Hello World", "AWS::S3::Bucket",
    "é", "日本語", "naïve café", "😀", "aé😀z", "ключ", "line1\nline2", "tab\there", "quote\"q", "it's", "%41%20b", "{\"j\":1}", "2024-01-01T00:00:00Z",
    "2024-08-21T00:00:00", "2024-08-21", "2024-08-21T23:30:00.5", "2024-08-21T00:00:00+09:00", "arn:aws:s3:::bucket", "/slash/", "back\\slash", "#hash", "key: value", "- item", "[1,2]", "ｆｕｌｌ", "\u{7f}", "e\u{301}",
];
pub const INTS: &[i64] = &[0, 1, -1, 2, 3, 5, 10, 42, 100, 443, 8080, 65535, i32::MAX as i64, i32::MIN as i64, i64::MAX, i64::MIN + 1, 1234567890123];
pub const FLOATS: &[f64] = &[0.0, 0.5, 1.5, -2.25, 3.14159, 1e10, 1e-7, 100.0, 1.0e308, -0.0];
pub const CFN_TYPES: &[&str] = &["AWS::S3::Bucket", "AWS::EC2::Volume", "AWS::IAM::Role", "Custom::Thing"];
pub const CFN_PROPS: &[&str] = &["BucketName", "Size", "Encrypted", "Tags", "Policy", "AvailabilityZone", "Name", "Versioning"];

/// Other spellings of a key that the evaluator's case converters (camel, class, kebab,
/// pascal, snake, title, train) map onto each other.
pub fn case_variants(k: &str) -> Vec<String> {
    // words: split at separators and at lower->upper transitions (bucketName, BucketName)
    let mut words: Vec<String> = Vec::new();
    let mut cur = String::new();
    let mut prev_lower = false;
    for c in k.chars() {
        if c == '_' || c == '-' || c == ' ' {
            if !cur.is_empty() {
                words.push(std::mem::take(&mut cur));
            }
            prev_lower = false;
            continue;
        }
        if c.is_uppercase() && prev_lower && !cur.is_empty() {
            words.push(std::mem::take(&mut cur));
        }
        prev_lower = c.is_lowercase() || c.is_ascii_digit();
        cur.push(c);
    }
    if !cur.is_empty() {
        words.push(cur);
    }
    if words.is_empty() || !k.chars().all(|c| c.is_ascii_alphanumeric() || c == '_' || c == '-' || c == ' ') {
        return vec![];
    }
    let cap = |w: &str| -> String {
        let mut c = w.chars();
        match c.next() {
            Some(f) => f.to_uppercase().collect::<String>() + c.as_str(),
            None => String::new(),
        }
    };
    let lower: Vec<String> = words.iter().map(|w| w.to_lowercase()).collect();
    let mut out = vec![
        lower.join("_"),
        lower.join("-"),
        lower.iter().map(|w| cap(w)).collect::<Vec<_>>().join(""),
        lower[0].clone() + &lower[1..].iter().map(|w| cap(w)).collect::<Vec<_>>().join(""),
        lower.iter().map(|w| cap(w)).collect::<Vec<_>>().join("-"),
        lower.iter().map(|w| cap(w)).collect::<Vec<_>>().join(" "),
    ];
    out.sort();
    out.dedup();
    out.retain(|v| v != k);
    out
}

pub fn gen_scalar(r: &mut Rng) -> J {
    match r.below(12) {
        0 => J::Null,
        1 | 2 => J::Bool(r.chance(1, 2)),
        3..=5 => J::Int(*r.pick(INTS)),
        6 => J::Float(*r.pick(FLOATS)),
        _ => J::Str((*r.pick(STRS)).to_string()),
    }
}

fn gen_value(r: &mut Rng, depth: usize, budget: &mut i32) -> J {
    *budget -= 1;
    if depth == 0 || *budget <= 0 {
        return gen_scalar(r);
    }
    match r.below(10) {
        0..=3 => gen_scalar(r),
        4..=6 => {
            let n = r.usize(4);
            let mut keys: Vec<&str> = KEYS.to_vec();
            r.shuffle(&mut keys);
            let mut kv: Vec<(String, J)> = (0..n).map(|i| (keys[i].to_string(), gen_value(r, depth - 1, budget))).collect();
            // occasionally the same key in a second spelling, with its own value
            if !kv.is_empty() && r.chance(1, 6) {
                let i = r.usize(kv.len());
                let vars = case_variants(&kv[i].0);
                if !vars.is_empty() {
                    let v = vars[r.usize(vars.len())].clone();
                    if !kv.iter().any(|(k, _)| *k == v) {
                        let val = if r.chance(1, 2) { gen_scalar(r) } else { mutate(r, &kv[i].1.clone()) };
                        kv.push((v, val));
                    }
                }
            }
            J::Map(kv)
        }
        _ => {
            let n = r.usize(4);
            // homogeneous lists are more useful for filters
            if r.chance(1, 2) {
                let proto = gen_value(r, depth - 1, budget);
                let mut v = vec![proto.clone()];
                for _ in 1..n.max(1) {
                    v.push(mutate(r, &proto));
                }
                J::List(v)
            } else {
                J::List((0..n).map(|_| gen_value(r, depth - 1, budget)).collect())
            }
        }
    }
}

/// A generic document: always a map at the top with 2..6 keys.
pub fn gen_doc(r: &mut Rng) -> J {
    let mut budget = 40;
    let n = 2 + r.usize(5);
    let mut keys: Vec<&str> = KEYS.to_vec();
    r.shuffle(&mut keys);
    let depth = 1 + r.usize(4);
    let mut kv: Vec<(String, J)> = (0..n).map(|i| (keys[i].to_string(), gen_value(r, depth, &mut budget))).collect();
    if r.chance(1, 5) {
        let i = r.usize(kv.len());
        let vars = case_variants(&kv[i].0);
        if !vars.is_empty() {
            let v = vars[r.usize(vars.len())].clone();
            if !kv.iter().any(|(k, _)| *k == v) {
                let val = gen_scalar(r);
                kv.push((v, val));
            }
        }
    }
    // occasionally two long lists that mostly agree (comparisons between multi-valued queries)
    if r.chance(1, 6) {
        let n = 9 + r.usize(8);
        let a: Vec<J> = (0..n).map(|i| if r.chance(1, 5) { J::Str(format!("s{}", i)) } else { J::Int(i as i64 * 3) }).collect();
        let mut b = a.clone();
        for _ in 0..(2 + r.usize(4)) {
            let i = r.usize(b.len());
            b[i] = J::Int(1000 + i as i64);
        }
        if r.chance(1, 3) {
            r.shuffle(&mut b);
        }
        kv.push(("long_a".into(), J::List(a)));
        kv.push(("long_b".into(), J::List(b)));
    }
    J::Map(kv)
}

/// A CloudFormation-shaped template: Resources with 1..5 resources over 1..3 types.
pub fn gen_cfn(r: &mut Rng) -> J {
    let nres = 1 + r.usize(5);
    let ntypes = 1 + r.usize(3);
    let mut types: Vec<&str> = CFN_TYPES.to_vec();
    r.shuffle(&mut types);
    let mut resources = Vec::new();
    for i in 0..nres {
        let ty = types[r.usize(ntypes)];
        let np = r.usize(4);
        let mut props_names: Vec<&str> = CFN_PROPS.to_vec();
        r.shuffle(&mut props_names);
        let mut props = Vec::new();
        for p in props_names.iter().take(np) {
            let v = match r.below(8) {
                0 => J::List(vec![gen_scalar(r), gen_scalar(r)]),
                1 => J::Map(vec![("Key".into(), gen_scalar(r)), ("Value".into(), gen_scalar(r))]),
                2 => J::Map(vec![("Ref".into(), J::Str("Other".into()))]),
                _ => {
                    // small value universe so that values repeat across resources of a type
                    match r.below(6) {
                        0 => J::Bool(r.chance(1, 2)),
                        1 | 2 => J::Int(*r.pick(&[1i64, 2, 50, 500])),
                        _ => J::Str((*r.pick(&["x", "y", "us-west-2a", "us-west-2b", "é", "a b"])).to_string()),
                    }
                }
            };
            props.push((p.to_string(), v));
            // the same property in a second spelling (legal: a different key), other value
            if r.chance(1, 5) {
                let vars = case_variants(p);
                if !vars.is_empty() {
                    let alt = vars[r.usize(vars.len())].clone();
                    props.push((alt, J::Str((*r.pick(&["x", "y", "logs-a", "us-west-2a"])).to_string())));
                }
            }
        }
        let mut res = vec![("Type".to_string(), J::Str(ty.to_string()))];
        if np > 0 || r.chance(1, 2) {
            res.push(("Properties".to_string(), J::Map(props)));
        }
        if r.chance(1, 6) {
            res.push(("Metadata".to_string(), J::Map(vec![("aws:cdk:path".into(), J::Str(format!("Stack/R{i}/Resource")))])));
        }
        resources.push((format!("Res{}", (b'A' + i as u8) as char), J::Map(res)));
    }
    let mut top = Vec::new();
    if r.chance(1, 3) {
        top.push(("AWSTemplateFormatVersion".to_string(), J::Str("2010-09-09".into())));
    }
    if r.chance(1, 3) {
        top.push(("Parameters".to_string(), J::Map(vec![("P1".into(), J::Map(vec![("Type".into(), J::Str("String".into()))]))])));
    }
    top.push(("Resources".to_string(), J::Map(resources)));
    J::Map(top)
}

/// A Terraform plan (`terraform show -json`): the console reporter has a dedicated path for
/// documents with a top-level `resource_changes`. Mostly well-formed entries; some lack an
/// address, carry one without a dot or of another type, have properties outside
/// `change.after`, or no `change` at all (all legal JSON the tool may be given).
pub fn gen_tf(r: &mut Rng) -> J {
    let n = 1 + r.usize(4);
    let mut changes = Vec::new();
    for i in 0..n {
        let ty = *r.pick(&["aws_s3_bucket", "aws_ebs_volume", "aws_instance"]);
        let mut after = vec![("name".to_string(), J::Str(format!("n{}", i % 2))), ("size".to_string(), J::Int(*r.pick(&[1i64, 2, 50])))];
        if r.chance(1, 2) {
            after.push(("encrypted".to_string(), J::Bool(r.chance(1, 2))));
        }
        if r.chance(1, 3) {
            after.push(("tags".to_string(), J::Map(vec![("env".into(), J::Str((*r.pick(&["dev", "prod", "é"])).to_string()))])));
        }
        if r.chance(1, 4) {
            after.push(("rules".to_string(), J::List(vec![J::Map(vec![("port".into(), J::Int(22))]), J::Map(vec![("port".into(), J::Int(443))])])));
        }
        let mut e = Vec::new();
        match r.below(10) {
            0 => {}
            1 | 3 => e.push(("address".to_string(), J::Str(format!("nodot{i}")))),
            2 => e.push(("address".to_string(), J::Int(i as i64))),
            _ => e.push(("address".to_string(), J::Str(format!("{ty}.r{i}")))),
        }
        e.push(("type".to_string(), J::Str(ty.to_string())));
        e.push(("name".to_string(), J::Str(format!("r{i}"))));
        if r.chance(1, 4) {
            e.push(("x".to_string(), gen_scalar(r)));
        }
        if !r.chance(1, 8) {
            let mut ch = vec![("actions".to_string(), J::List(vec![J::Str((*r.pick(&["create", "update", "delete"])).to_string())]))];
            if !r.chance(1, 6) {
                ch.push(("after".to_string(), J::Map(after)));
            }
            e.push(("change".to_string(), J::Map(ch)));
        }
        changes.push(J::Map(e));
    }
    let mut top = vec![("format_version".to_string(), J::Str("1.0".into()))];
    top.push(("resource_changes".to_string(), J::List(changes)));
    if r.chance(1, 3) {
        top.push(("zz_after".to_string(), J::Map(vec![("k".into(), gen_scalar(r))])));
    }
    J::Map(top)
}

/// A variant of `d`: same shape mostly, some values changed / dropped / added.
pub fn mutate(r: &mut Rng, d: &J) -> J {
    match d {
        J::Map(kv) => {
            let mut out = Vec::new();
            for (k, v) in kv {
                match r.below(10) {
                    0 => {} // drop
                    1 => out.push((k.clone(), gen_scalar(r))),
                    _ => out.push((k.clone(), mutate(r, v))),
                }
            }
            if r.chance(1, 8) {
                let k = *r.pick(KEYS);
                if !out.iter().any(|(kk, _)| kk == k) {
                    out.push((k.to_string(), gen_scalar(r)));
                }
            }
            J::Map(out)
        }
        J::List(xs) => {
            let mut out: Vec<J> = Vec::new();
            for x in xs {
                match r.below(10) {
                    0 => {}
                    _ => out.push(mutate(r, x)),
                }
            }
            if r.chance(1, 6) && !xs.is_empty() {
                let x = r.pick(xs).clone();
                out.push(mutate(r, &x));
            }
            J::List(out)
        }
        s => {
            if r.chance(1, 4) {
                match s {
                    J::Int(i) => J::Int(i.wrapping_add(r.range(-2, 2))),
                    J::Bool(b) => J::Bool(!*b),
                    J::Str(_) => J::Str((*r.pick(STRS)).to_string()),
                    _ => gen_scalar(r),
                }
            } else {
                s.clone()
            }
        }
    }
}

// ---------------------------------------------------------------------------------------
// printers
// ---------------------------------------------------------------------------------------

pub fn json_str(s: &str, out: &mut String) {
    out.push('"');
    for c in s.chars() {
        match c {
            '"' => out.push_str("\\\""),
            '\\' => out.push_str("\\\\"),
            '\n' => out.push_str("\\n"),
            '\t' => out.push_str("\\t"),
            '\r' => out.push_str("\\r"),
            c if (c as u32) < 0x20 || c as u32 == 0x7f => out.push_str(&format!("\\u{:04x}", c as u32)),
            c => out.push(c),
        }
    }
    out.push('"');
}

fn fmt_float(f: f64) -> String {
    if f == f.trunc() && f.abs() < 1e15 {
        format!("{:.1}", f)
    } else if f.abs() >= 1e15 || f.abs() < 1e-4 {
        format!("{:e}", f)
    } else {
        format!("{}", f)
    }
}

pub fn to_json(d: &J, out: &mut String) {
    match d {
        J::Null => out.push_str("null"),
        J::Bool(b) => out.push_str(if *b { "true" } else { "false" }),
        J::Int(i) => out.push_str(&i.to_string()),
        J::Float(f) => out.push_str(&fmt_float(*f)),
        J::Str(s) => json_str(s, out),
        J::List(xs) => {
            out.push('[');
            for (i, x) in xs.iter().enumerate() {
                if i > 0 {
                    out.push(',');
                }
                to_json(x, out);
            }
            out.push(']');
        }
        J::Map(kv) => {
            out.push('{');
            for (i, (k, v)) in kv.iter().enumerate() {
                if i > 0 {
                    out.push(',');
                }
                json_str(k, out);
                out.push(':');
                to_json(v, out);
            }
            out.push('}');
        }
    }
}

pub fn to_json_pretty(d: &J, ind: usize, out: &mut String) {
    let pad = |n: usize, out: &mut String| {
        for _ in 0..n {
            out.push_str("  ");
        }
    };
    match d {
        J::List(xs) if !xs.is_empty() => {
            out.push_str("[\n");
            for (i, x) in xs.iter().enumerate() {
                pad(ind + 1, out);
                to_json_pretty(x, ind + 1, out);
                if i + 1 < xs.len() {
                    out.push(',');
                }
                out.push('\n');
            }
            pad(ind, out);
            out.push(']');
        }
        J::Map(kv) if !kv.is_empty() => {
            out.push_str("{\n");
            for (i, (k, v)) in kv.iter().enumerate() {
                pad(ind + 1, out);
                json_str(k, out);
                out.push_str(": ");
                to_json_pretty(v, ind + 1, out);
                if i + 1 < kv.len() {
                    out.push(',');
                }
                out.push('\n');
            }
            pad(ind, out);
            out.push('}');
        }
        other => to_json(other, out),
    }
}

/// Block YAML. Scalars are emitted as JSON scalars (double-quoted strings), which YAML accepts.
pub fn to_yaml_block(d: &J, ind: usize, out: &mut String) {
    let pad = |n: usize, out: &mut String| {
        for _ in 0..n {
            out.push_str("  ");
        }
    };
    match d {
        J::Map(kv) if !kv.is_empty() => {
            for (k, v) in kv {
                pad(ind, out);
                json_str(k, out);
                out.push(':');
                match v {
                    J::Map(m) if !m.is_empty() => {
                        out.push('\n');
                        to_yaml_block(v, ind + 1, out);
                    }
                    J::List(l) if !l.is_empty() => {
                        out.push('\n');
                        to_yaml_block(v, ind + 1, out);
                    }
                    _ => {
                        out.push(' ');
                        to_json(v, out);
                        out.push('\n');
                    }
                }
            }
        }
        J::List(xs) if !xs.is_empty() => {
            for x in xs {
                pad(ind, out);
                out.push('-');
                match x {
                    J::Map(m) if !m.is_empty() => {
                        out.push('\n');
                        to_yaml_block(x, ind + 1, out);
                    }
                    J::List(l) if !l.is_empty() => {
                        out.push('\n');
                        to_yaml_block(x, ind + 1, out);
                    }
                    _ => {
                        out.push(' ');
                        to_json(x, out);
                        out.push('\n');
                    }
                }
            }
        }
        other => {
            pad(ind, out);
            to_json(other, out);
            out.push('\n');
        }
    }
}

#[derive(Clone, Copy, Debug, PartialEq, Eq)]
pub enum DocFmt {
    JsonCompact,
    JsonPretty,
    YamlFlow,
    YamlBlock,
}

impl DocFmt {
    pub fn ext(self) -> &'static str {
        match self {
            DocFmt::JsonCompact | DocFmt::JsonPretty => "json",
            DocFmt::YamlFlow | DocFmt::YamlBlock => "yaml",
        }
    }
    pub fn pick(r: &mut Rng) -> DocFmt {
        *r.pick(&[DocFmt::JsonCompact, DocFmt::JsonPretty, DocFmt::JsonPretty, DocFmt::YamlFlow, DocFmt::YamlBlock, DocFmt::YamlBlock])
    }
}

pub fn render(d: &J, f: DocFmt) -> String {
    let mut s = String::new();
    match f {
        DocFmt::JsonCompact | DocFmt::YamlFlow => to_json(d, &mut s),
        DocFmt::JsonPretty => {
            to_json_pretty(d, 0, &mut s);
            s.push('\n');
        }
        DocFmt::YamlBlock => {
            to_yaml_block(d, 0, &mut s);
            if s.is_empty() {
                to_json(d, &mut s);
            }
        }
    }
    s
}

/// Guard value literal (used on right-hand sides and in `let`).
pub fn to_guard_literal(d: &J, out: &mut String) {
    match d {
        J::Null => out.push_str("null"),
        J::Bool(b) => out.push_str(if *b { "true" } else { "false" }),
        J::Int(i) => out.push_str(&i.to_string()),
        J::Float(f) => out.push_str(&fmt_float(*f)),
        J::Str(s) => {
            // Guard strings: the delimiter is escaped by a backslash, nothing else is
            // interpreted. Choose the delimiter that needs no escaping when possible.
            let q = if s.contains('"') && !s.contains('\'') { '\'' } else { '"' };
            out.push(q);
            for c in s.chars() {
                if c == q {
                    out.push('\\');
                }
                out.push(c);
            }
            out.push(q);
        }
        J::List(xs) => {
            out.push('[');
            for (i, x) in xs.iter().enumerate() {
                if i > 0 {
                    out.push_str(", ");
                }
                to_guard_literal(x, out);
            }
            out.push(']');
        }
        J::Map(kv) => {
            out.push('{');
            for (i, (k, v)) in kv.iter().enumerate() {
                if i > 0 {
                    out.push_str(", ");
                }
                let mut ks = String::new();
                to_guard_literal(&J::Str(k.clone()), &mut ks);
                out.push_str(&ks);
                out.push_str(": ");
                to_guard_literal(v, out);
            }
            out.push('}');
        }
    }
}

pub fn is_guard_literal_safe(d: &J) -> bool {
    match d {
        // strings ending in a backslash or containing newlines are awkward in rule text
        J::Str(s) => !s.ends_with('\\') && !s.contains('\n') && !s.contains('\\'),
        J::Float(f) => f.is_finite() && !f.is_sign_negative() && f.abs() < 1e15 && (f.abs() >= 1e-4 || *f == 0.0),
        J::List(xs) => xs.iter().all(is_guard_literal_safe),
        J::Map(kv) => kv.iter().all(|(k, v)| is_guard_literal_safe(&J::Str(k.clone())) && is_guard_literal_safe(v)),
        _ => true,
    }
}

// ---------------------------------------------------------------------------------------
// paths and shrinking
// ---------------------------------------------------------------------------------------

#[derive(Clone, Debug, PartialEq)]
pub enum Seg {
    Key(String),
    Idx(usize),
}

/// All paths (to every node, including inner nodes), in document order.
pub fn all_paths(d: &J) -> Vec<Vec<Seg>> {
    fn rec(d: &J, cur: &mut Vec<Seg>, out: &mut Vec<Vec<Seg>>) {
        if !cur.is_empty() {
            out.push(cur.clone());
        }
        match d {
            J::Map(kv) => {
                for (k, v) in kv {
                    cur.push(Seg::Key(k.clone()));
                    rec(v, cur, out);
                    cur.pop();
                }
            }
            J::List(xs) => {
                for (i, x) in xs.iter().enumerate() {
                    cur.push(Seg::Idx(i));
                    rec(x, cur, out);
                    cur.pop();
                }
            }
            _ => {}
        }
    }
    let mut out = Vec::new();
    rec(d, &mut Vec::new(), &mut out);
    out
}

pub fn at<'a>(d: &'a J, p: &[Seg]) -> Option<&'a J> {
    let mut cur = d;
    for s in p {
        cur = match (cur, s) {
            (J::Map(kv), Seg::Key(k)) => &kv.iter().find(|(kk, _)| kk == k)?.1,
            (J::List(xs), Seg::Idx(i)) => xs.get(*i)?,
            _ => return None,
        };
    }
    Some(cur)
}

pub fn node_count(d: &J) -> usize {
    match d {
        J::Map(kv) => 1 + kv.iter().map(|(_, v)| node_count(v)).sum::<usize>(),
        J::List(xs) => 1 + xs.iter().map(node_count).sum::<usize>(),
        _ => 1,
    }
}

/// One-step smaller variants of `d` (drop a key / element, collapse a subtree, simplify a scalar).
pub fn shrinks(d: &J) -> Vec<J> {
    let mut out = Vec::new();
    match d {
        J::Map(kv) => {
            for i in 0..kv.len() {
                let mut k2 = kv.clone();
                k2.remove(i);
                out.push(J::Map(k2));
            }
            for i in 0..kv.len() {
                for s in shrinks(&kv[i].1) {
                    let mut k2 = kv.clone();
                    k2[i].1 = s;
                    out.push(J::Map(k2));
                }
            }
        }
        J::List(xs) => {
            for i in 0..xs.len() {
                let mut x2 = xs.clone();
                x2.remove(i);
                out.push(J::List(x2));
            }
            for i in 0..xs.len() {
                for s in shrinks(&xs[i]) {
                    let mut x2 = xs.clone();
                    x2[i] = s;
                    out.push(J::List(x2));
                }
            }
        }
        J::Str(s) if !s.is_empty() && s != "x" => out.push(J::Str("x".into())),
        J::Int(i) if *i != 0 && *i != 1 => out.push(J::Int(1)),
        J::Float(f) if *f != 1.5 => out.push(J::Float(1.5)),
        _ => {}
    }
    out
}
