//! Shared workload: documents, rule programs, test specs, templates, laid out as scenario
//! files, plus the menu of invocations over the real flag set.

use crate::doc::{self, DocFmt, J};
use crate::exec::FileSpec;
use crate::prng::Rng;
use crate::proto::{RunChecksSpec, Step};
use crate::rules::{self, GenOpts, Prog};
use serde_json::{json, Value};
use std::collections::BTreeMap;

#[derive(Clone, Debug, PartialEq)]
pub struct TestCase {
    pub name: Option<String>,
    pub input: J,
    pub expect: Vec<(String, String)>,
}

#[derive(Clone, Debug, PartialEq)]
pub struct Workload {
    pub docs: Vec<(J, DocFmt)>,
    pub progs: Vec<Prog>,
    pub params: Vec<J>,
    pub tests: Vec<TestCase>,
    pub template: Option<J>,
    /// raw byte overrides by relative path (storage faults); applied last
    pub overrides: BTreeMap<String, Vec<u8>>,
    /// modification times (ns) by relative path; files not listed get base + index seconds
    pub mtimes: BTreeMap<String, i64>,
    pub mtime_base_s: i64,
    /// add a copy of the first document under a file name full of characters that need
    /// escaping somewhere (XML, JSON, shells, URIs)
    pub odd_names: bool,
}

pub fn doc_rel(i: usize, f: DocFmt) -> String {
    format!("data/d{}.{}", i, f.ext())
}
pub fn rules_rel(i: usize) -> String {
    format!("rules/r{}.guard", i)
}

fn jv(d: &J) -> Value {
    match d {
        J::Null => Value::Null,
        J::Bool(b) => json!(b),
        J::Int(i) => json!(i),
        J::Float(f) => json!(f),
        J::Str(s) => json!(s),
        J::List(xs) => Value::Array(xs.iter().map(jv).collect()),
        J::Map(kv) => {
            let mut m = serde_json::Map::new();
            for (k, v) in kv {
                m.insert(k.clone(), jv(v));
            }
            Value::Object(m)
        }
    }
}

impl Workload {
    pub fn tests_text(&self) -> String {
        let mut cases = Vec::new();
        for t in &self.tests {
            let mut rules = serde_json::Map::new();
            for (k, v) in &t.expect {
                rules.insert(k.clone(), json!(v));
            }
            let mut c = serde_json::Map::new();
            if let Some(n) = &t.name {
                c.insert("name".into(), json!(n));
            }
            c.insert("input".into(), jv(&t.input));
            c.insert("expectations".into(), json!({ "rules": Value::Object(rules) }));
            cases.push(Value::Object(c));
        }
        serde_json::to_string_pretty(&Value::Array(cases)).unwrap()
    }

    pub fn payload_text(&self) -> String {
        let rules: Vec<String> = self.progs.iter().map(|p| p.print()).collect();
        let data: Vec<String> = self.docs.iter().map(|(d, f)| doc::render(d, *f)).collect();
        serde_json::to_string(&json!({"rules": rules, "data": data})).unwrap()
    }

    pub fn files(&self) -> Vec<FileSpec> {
        let mut out: Vec<FileSpec> = Vec::new();
        let mut push = |rel: String, bytes: Vec<u8>| {
            out.push(FileSpec { rel, bytes, mtime_ns: 0 });
        };
        for (i, (d, f)) in self.docs.iter().enumerate() {
            push(doc_rel(i, *f), doc::render(d, *f).into_bytes());
        }
        if self.odd_names && !self.docs.is_empty() {
            push("data/od d&<é>'\"#%20[x]{y}$(z);.json".into(), doc::render(&self.docs[0].0, DocFmt::JsonCompact).into_bytes());
            // names that differ only in case (legal on Linux): an ordering that folds case
            // cannot tell them apart and falls back on the enumeration order
            let (last, _) = &self.docs[self.docs.len() - 1];
            let f0 = self.docs[0].1;
            push(format!("data/D0.{}", f0.ext()), doc::render(last, f0).into_bytes());
            if self.progs.len() > 1 {
                push("rules/R0.guard".into(), b"rule case_twin {\n  zz_no_such_key !exists\n}\n".to_vec());
            }
        }
        for (i, p) in self.progs.iter().enumerate() {
            push(rules_rel(i), p.print().into_bytes());
        }
        for (i, p) in self.params.iter().enumerate() {
            push(format!("params/p{}.json", i), doc::render(p, DocFmt::JsonPretty).into_bytes());
        }
        if !self.tests.is_empty() && !self.progs.is_empty() {
            let t = self.tests_text().into_bytes();
            push("tests/r0_tests.json".into(), t.clone());
            // a second test file for the same rules file (last case only): `-t <dir>` walks both
            let more = Workload { tests: self.tests[self.tests.len() - 1..].to_vec(), ..self.clone() };
            push("tests/r0_more_tests.json".into(), more.tests_text().into_bytes());
            push("tdir/r0.guard".into(), self.progs[0].print().into_bytes());
            push("tdir/tests/r0_tests.json".into(), t);
            if self.progs.len() > 1 {
                // a second rule file in the directory layout with its own (single-case) test file
                push("tdir/r1.guard".into(), self.progs[1].print().into_bytes());
                let one = Workload { tests: self.tests[..1].to_vec(), ..self.clone() };
                push("tdir/tests/r1_tests.json".into(), one.tests_text().into_bytes());
            }
        }
        if let Some(t) = &self.template {
            push("tmpl/t.json".into(), doc::render(t, DocFmt::JsonPretty).into_bytes());
        }
        if !self.docs.is_empty() {
            push("stdin/data.json".into(), doc::render(&self.docs[0].0, DocFmt::JsonCompact).into_bytes());
        }
        push("stdin/payload.json".into(), self.payload_text().into_bytes());
        if !self.progs.is_empty() {
            push("stdin/rules.guard".into(), self.progs[0].print().into_bytes());
        }
        for (rel, bytes) in &self.overrides {
            match out.iter_mut().find(|f| &f.rel == rel) {
                Some(f) => f.bytes = bytes.clone(),
                None => out.push(FileSpec { rel: rel.clone(), bytes: bytes.clone(), mtime_ns: 0 }),
            }
        }
        for (i, f) in out.iter_mut().enumerate() {
            f.mtime_ns = match self.mtimes.get(&f.rel) {
                Some(m) => *m,
                None => (self.mtime_base_s + i as i64 * 7) * 1_000_000_000,
            };
        }
        out
    }
}

pub struct WlOpts {
    pub max_docs: usize,
    pub max_progs: usize,
    pub gen: GenOpts,
    pub cfn_bias: u64,
    /// some test cases carry several misspelt expectation statuses (the command rejects them)
    pub bad_expectations: bool,
    /// one workload in `tf_bias` that is not a template is a Terraform plan
    pub tf_bias: u64,
}

impl Default for WlOpts {
    fn default() -> Self {
        WlOpts { max_docs: 3, max_progs: 3, gen: GenOpts::default(), cfn_bias: 3, bad_expectations: false, tf_bias: 8 }
    }
}

pub fn gen_workload(r: &mut Rng, o: &WlOpts) -> Workload {
    let cfn = r.chance(1, o.cfn_bias.max(1));
    let tf = !cfn && r.chance(1, o.tf_bias.max(1));
    let d0 = if cfn { doc::gen_cfn(r) } else if tf { doc::gen_tf(r) } else { doc::gen_doc(r) };
    let ndocs = 1 + r.usize(o.max_docs.max(1));
    let mut docs = vec![(d0.clone(), DocFmt::pick(r))];
    for _ in 1..ndocs {
        docs.push((doc::mutate(r, &d0), DocFmt::pick(r)));
    }
    let nprogs = 1 + r.usize(o.max_progs.max(1));
    let mut progs = Vec::new();
    for _ in 0..nprogs {
        let base = &docs[r.usize(docs.len())].0.clone();
        progs.push(rules::gen_prog(r, base, &o.gen));
    }
    // test cases for progs[0]
    let ncases = 1 + r.usize(4);
    let names = progs[0].rule_names();
    let mut tests = Vec::new();
    for c in 0..ncases {
        let input = if c == 0 { d0.clone() } else { doc::mutate(r, &d0) };
        let mut expect = Vec::new();
        for n in &names {
            match r.below(5) {
                0 => {}
                1 | 2 => expect.push((n.clone(), "PASS".to_string())),
                3 => expect.push((n.clone(), "FAIL".to_string())),
                _ => expect.push((n.clone(), "SKIP".to_string())),
            }
        }
        if o.bad_expectations && expect.len() >= 2 && r.chance(1, 6) {
            // two or more statuses that are not PASS / FAIL / SKIP: which one is quoted in the
            // diagnostic must not depend on anything but the file
            let bad = ["PASSED", "pass", "FAILS", "Skip", "OK"];
            let k = 2 + r.usize(expect.len() - 1);
            for (i, e) in expect.iter_mut().take(k).enumerate() {
                e.1 = bad[i % bad.len()].to_string();
            }
        }
        tests.push(TestCase { name: if r.chance(3, 4) { Some(format!("case {}", c + 1)) } else { None }, input, expect });
    }
    let template = Some(if cfn { d0.clone() } else { doc::gen_cfn(r) });
    let params = if r.chance(1, 3) {
        vec![J::Map(vec![("PARAM_X".into(), doc::gen_scalar(r)), ("PARAM_Y".into(), J::List(vec![J::Int(1), J::Int(2)]))])]
    } else {
        vec![]
    };
    Workload { docs, progs, params, tests, template, overrides: BTreeMap::new(), mtimes: BTreeMap::new(), mtime_base_s: 1_700_000_000, odd_names: r.chance(1, 6) }
}

/// Append a comment full of multi-byte characters to every line of a rules or YAML text:
/// any byte-offset arithmetic on the text (excerpts, truncation, columns) then lands inside
/// a character with high probability. Comments do not change the meaning of either format.
pub fn utf8_densify(r: &mut Rng, text: &[u8]) -> Vec<u8> {
    let pools: &[&str] = &["é", "ü", "日", "本", "😀", "ｆ", "ж", "€", "ß"];
    let mut out = Vec::with_capacity(text.len() * 2);
    for line in text.split_inclusive(|b| *b == b'\n') {
        let (body, nl) = if line.ends_with(b"\n") { (&line[..line.len() - 1], &b"\n"[..]) } else { (line, &b""[..]) };
        out.extend_from_slice(body);
        if r.chance(3, 4) {
            out.extend_from_slice(b" # ");
            let n = 1 + r.usize(24);
            for _ in 0..n {
                out.extend_from_slice(r.pick(pools).as_bytes());
            }
        }
        out.extend_from_slice(nl);
    }
    out
}

/// Output comparison mode of a step.
#[derive(Clone, Copy, Debug, PartialEq, Eq)]
pub enum Mode {
    /// byte-identical
    Exact,
    /// byte-identical after blanking `time="…"` attribute values
    Junit,
    /// equal as a multiset of lines after stripping ANSI escapes
    Lines,
}
impl Mode {
    pub fn name(self) -> &'static str {
        match self {
            Mode::Exact => "exact",
            Mode::Junit => "junit",
            Mode::Lines => "lines",
        }
    }
    pub fn from_name(s: &str) -> Mode {
        match s {
            "exact" => Mode::Exact,
            "junit" => Mode::Junit,
            _ => Mode::Lines,
        }
    }
}

/// A step template: paths are written as `@/rel` and substituted with the work root.
#[derive(Clone, Debug, PartialEq)]
pub struct StepT {
    pub class: String,
    pub mode: Mode,
    pub kind: String,
    pub argv: Vec<String>,
    pub stdin: Option<String>,
    pub out: Option<String>,
    pub rc: Option<RunChecksSpec>,
    /// whether directory enumeration order is allowed to vary for this step
    pub dir_order_defined: bool,
}

impl StepT {
    pub fn label(&self) -> String {
        format!("{}|{}", self.class, self.mode.name())
    }
    pub fn to_step(&self, root: &str) -> Step {
        self.to_step_occ(root, 0)
    }
    /// `occ` makes output-file paths unique per occurrence of the step inside one process
    pub fn to_step_occ(&self, root: &str, occ: usize) -> Step {
        let sub = |s: &String| -> String {
            if let Some(rest) = s.strip_prefix("@/out/") {
                format!("{}out/{}.{}", root, rest, occ)
            } else if let Some(rest) = s.strip_prefix("@/") {
                format!("{}{}", root, rest)
            } else {
                s.clone()
            }
        };
        Step {
            kind: self.kind.clone(),
            argv: self.argv.iter().map(sub).collect(),
            stdin: self.stdin.as_ref().map(sub),
            out_path: self.out.as_ref().map(sub),
            rc: self.rc.clone(),
            label: self.label(),
        }
    }
    pub fn to_json(&self) -> Value {
        json!({"class": self.class, "mode": self.mode.name(), "kind": self.kind, "argv": self.argv, "stdin": self.stdin, "out": self.out,
               "rc": self.rc.as_ref().map(|r| json!({"data": r.data, "data_name": r.data_name, "rules": r.rules, "rules_name": r.rules_name, "verbose": r.verbose})),
               "dir_order_defined": self.dir_order_defined})
    }
    pub fn from_json(v: &Value) -> Option<StepT> {
        let strs = |x: &Value| -> Vec<String> { x.as_array().map(|a| a.iter().filter_map(|s| s.as_str().map(String::from)).collect()).unwrap_or_default() };
        Some(StepT {
            class: v.get("class")?.as_str()?.to_string(),
            mode: Mode::from_name(v.get("mode")?.as_str()?),
            kind: v.get("kind")?.as_str()?.to_string(),
            argv: strs(v.get("argv")?),
            stdin: v.get("stdin").and_then(|s| s.as_str()).map(String::from),
            out: v.get("out").and_then(|s| s.as_str()).map(String::from),
            rc: v.get("rc").and_then(|r| {
                if r.is_null() {
                    None
                } else {
                    Some(RunChecksSpec {
                        data: r.get("data")?.as_str()?.to_string(),
                        data_name: r.get("data_name")?.as_str()?.to_string(),
                        rules: r.get("rules")?.as_str()?.to_string(),
                        rules_name: r.get("rules_name")?.as_str()?.to_string(),
                        verbose: r.get("verbose")?.as_bool()?,
                    })
                }
            }),
            dir_order_defined: v.get("dir_order_defined").and_then(|b| b.as_bool()).unwrap_or(true),
        })
    }
}

fn s(x: &str) -> String {
    x.to_string()
}

fn cli(class: &str, mode: Mode, args: &[&str]) -> StepT {
    let mut argv = vec![s("cfn-guard")];
    argv.extend(args.iter().map(|a| s(a)));
    StepT { class: s(class), mode, kind: s("cli"), argv, stdin: None, out: None, rc: None, dir_order_defined: true }
}

/// One random invocation over the real flag set, valid for clap and `validate_construct`.
pub fn gen_step(r: &mut Rng, wl: &Workload) -> StepT {
    let d0 = doc_rel(0, wl.docs[0].1);
    let d0 = format!("@/{}", d0);
    let r0 = format!("@/{}", rules_rel(0));
    let multi = wl.docs.len() > 1 || wl.progs.len() > 1;
    let order_flag: Option<&str> = match r.below(4) {
        0 => Some("-a"),
        1 => Some("-m"),
        _ => None,
    };
    let with_params = !wl.params.is_empty() && r.chance(1, 2);
    let choice = r.below(100);
    let mut st = if choice < 22 {
        // structured validate over files / directories
        let fmt = *r.pick(&["json", "yaml", "junit", "sarif"]);
        let mode = if fmt == "junit" { Mode::Junit } else { Mode::Exact };
        let (rs, ds): (String, String) = if multi && r.chance(2, 3) { (s("@/rules"), s("@/data")) } else { (r0.clone(), d0.clone()) };
        let mut st = cli(&format!("validate-structured-{fmt}"), mode, &["validate", "-r", &rs, "-d", &ds, "--structured", "-o", fmt, "-S", "none"]);
        if let Some(f) = order_flag {
            st.argv.push(s(f));
        }
        st
    } else if choice < 44 {
        // plain validate with summary / verbose / print-json variations
        let fmt = *r.pick(&["single-line-summary", "single-line-summary", "json", "yaml"]);
        let summ = *r.pick(&["all", "fail", "pass,skip", "none", "pass", "skip"]);
        let verbose = r.chance(1, 4);
        let pj = r.chance(1, 5);
        let exact = fmt != "single-line-summary" && summ == "none" && !verbose;
        let (rs, ds): (String, String) = if multi && r.chance(1, 2) { (s("@/rules"), s("@/data")) } else { (r0.clone(), d0.clone()) };
        let mut st = cli(&format!("validate-plain-{fmt}"), if exact { Mode::Exact } else { Mode::Lines }, &["validate", "-r", &rs, "-d", &ds, "-o", fmt, "-S", summ]);
        if verbose {
            st.argv.push(s("-v"));
        }
        if pj {
            st.argv.push(s("-p"));
        }
        if let Some(f) = order_flag {
            st.argv.push(s(f));
        }
        if r.chance(1, 6) {
            st.argv.push(s("-t"));
            st.argv.push(s("CFNTemplate"));
        }
        st
    } else if choice < 52 {
        // payload on stdin
        let structured = r.chance(1, 2);
        let mut st = if structured {
            let fmt = *r.pick(&["json", "yaml", "junit", "sarif"]);
            cli(&format!("validate-payload-{fmt}"), if fmt == "junit" { Mode::Junit } else { Mode::Exact }, &["validate", "--payload", "--structured", "-o", fmt, "-S", "none"])
        } else {
            cli("validate-payload-plain", Mode::Lines, &["validate", "--payload", "-S", *r.pick(&["all", "fail", "none"])])
        };
        st.stdin = Some(s("@/stdin/payload.json"));
        st
    } else if choice < 58 {
        // data on stdin
        let structured = r.chance(1, 2);
        let mut st = if structured {
            cli("validate-stdin-json", Mode::Exact, &["validate", "-r", &r0, "--structured", "-o", "json", "-S", "none"])
        } else {
            cli("validate-stdin-plain", Mode::Lines, &["validate", "-r", &r0, "-S", "all"])
        };
        st.stdin = Some(s("@/stdin/data.json"));
        st
    } else if choice < 72 {
        // test, single file
        let fmt = *r.pick(&["single-line-summary", "json", "yaml", "junit"]);
        let mode = match fmt {
            "single-line-summary" => Mode::Lines,
            "junit" => Mode::Junit,
            _ => Mode::Exact,
        };
        let mut st = cli(&format!("test-file-{fmt}"), mode, &["test", "-r", &r0, "-t", "@/tests/r0_tests.json", "-o", fmt]);
        if r.chance(1, 3) {
            // a directory of test files; without -a / -m the walk order is the directory's own
            st.argv[5] = s("@/tests");
            st.class = format!("test-files-{fmt}");
            match order_flag {
                Some(f) => st.argv.push(s(f)),
                None => st.dir_order_defined = false,
            }
        }
        if fmt == "single-line-summary" && r.chance(1, 3) {
            st.argv.push(s("-v"));
        }
        st
    } else if choice < 80 {
        // test, directory layout
        let fmt = *r.pick(&["single-line-summary", "json", "yaml", "junit"]);
        let mode = match fmt {
            "single-line-summary" => Mode::Lines,
            "junit" => Mode::Junit,
            _ => Mode::Exact,
        };
        let mut st = cli(&format!("test-dir-{fmt}"), mode, &["test", "--dir", "@/tdir", "-o", fmt]);
        if let Some(f) = order_flag {
            st.argv.push(s(f));
        }
        st
    } else if choice < 87 {
        // parse-tree
        let flag = *r.pick(&["-p", "-y", ""]);
        let mut st = cli(&format!("parse-tree{flag}"), Mode::Exact, &["parse-tree", "-r", &r0]);
        if !flag.is_empty() {
            st.argv.push(s(flag));
        }
        if r.chance(1, 3) {
            st.argv.push(s("-o"));
            st.argv.push(s("@/out/pt.out"));
            st.out = Some(s("@/out/pt.out"));
        } else if r.chance(1, 4) {
            // rules from stdin
            st.argv = vec![s("cfn-guard"), s("parse-tree")];
            if !flag.is_empty() {
                st.argv.push(s(flag));
            } else {
                st.argv.push(s("-y"));
            }
            st.stdin = Some(s("@/stdin/rules.guard"));
        }
        st
    } else if choice < 94 {
        // rulegen: its text is a rules file (not one of the structured formats the property
        // lists), so it is compared as a multiset of lines
        let mut st = cli("rulegen", Mode::Lines, &["rulegen", "-t", "@/tmpl/t.json"]);
        if r.chance(1, 3) {
            st.argv.push(s("-o"));
            st.argv.push(s("@/out/rg.guard"));
            st.out = Some(s("@/out/rg.guard"));
        }
        st
    } else {
        let verbose = r.chance(1, 2);
        StepT {
            class: format!("run_checks-{}", if verbose { "verbose" } else { "plain" }),
            mode: Mode::Exact,
            kind: s("run_checks"),
            argv: vec![],
            stdin: None,
            out: None,
            rc: Some(RunChecksSpec { data: doc::render(&wl.docs[0].0, wl.docs[0].1), data_name: s("data.json"), rules: wl.progs[0].print(), rules_name: s("lambda-rule"), verbose }),
            dir_order_defined: true,
        }
    };
    if with_params && st.kind == "cli" && st.argv.get(1).map(|a| a == "validate").unwrap_or(false) && !st.argv.iter().any(|a| a == "--payload") {
        st.argv.push(s("-i"));
        st.argv.push(s("@/params"));
    }
    st
}
