//! C08 — no input crashes the tool; bad input is reported as an error.
//!
//! Fault model: the writer of a rules / data / test / parameter / payload / template file
//! crashed, lost, repeated or misdirected a write, or the medium flipped bits (storage
//! fault sequences over the stored bytes); the reader then meets short reads, EINTR, EIO,
//! early EOF and failing opens. Zero-fault scenarios run adversarial but grammatical
//! programs (cyclic rule references, literal left-hand sides, type-mismatched function
//! arguments, substring bounds inside multi-byte characters, extreme indices ...).

use crate::c05::{files_from_json, files_to_json, short_loc, strip_ansi};
use crate::exec::{FileSpec, Work};
use crate::framework::*;
use crate::prng::{derive, Rng};
use crate::proto::*;
use crate::rules::GenOpts;
use crate::workload::*;
use serde_json::{json, Value};

pub struct C08;

// ---------------------------------------------------------------------------------------
// storage faults
// ---------------------------------------------------------------------------------------

#[derive(Clone, Debug, PartialEq)]
pub enum Op {
    Truncate(usize),
    ZeroTail(usize),
    Drop(usize, usize),
    Dup(usize, usize),
    Splice { from: String, at: usize, src: usize, len: usize },
    FlipBits(Vec<(usize, u8)>),
    Overwrite(usize, Vec<u8>),
    Insert(usize, Vec<u8>),
    Crlf,
    /// token / line level edits (seeded): delete, duplicate, swap, replace by a grammar token
    Token { seed: u64, kind: u8 },
}

impl Op {
    fn name(&self) -> &'static str {
        match self {
            Op::Truncate(_) => "truncate",
            Op::ZeroTail(_) => "zero_tail",
            Op::Drop(..) => "drop_block",
            Op::Dup(..) => "dup_block",
            Op::Splice { .. } => "splice",
            Op::FlipBits(_) => "bit_flip",
            Op::Overwrite(..) => "overwrite",
            Op::Insert(..) => "insert_bytes",
            Op::Crlf => "crlf",
            Op::Token { kind, .. } => match kind {
                0 => "token_delete",
                1 => "token_duplicate",
                2 => "token_swap",
                3 => "token_replace",
                4 => "line_swap",
                5 => "line_duplicate",
                _ => "line_delete",
            },
        }
    }
}

const INSERTS: &[&[u8]] = &[
    b"\xEF\xBB\xBF",     // BOM
    b"\x00",             // NUL
    b"\xEF\xBF\xBD",     // U+FFFD
    b"\xED\xA0\x80",     // lone surrogate (invalid UTF-8)
    b"\xF0\x9F\x98\x80", // 4-byte character
    b"\xC3",             // torn 2-byte character
    b"\xE2\x82",         // torn 3-byte character
    b"\xFF\xFE",         // UTF-16 BOM
    b"\r",
    b"\x1b[31m",
    b"\xC2\xA0",         // NBSP
    b"\xE2\x80\xA8",     // LINE SEPARATOR
    b"{{{{{{{{{{{{{{{{",
    b"[[[[[[[[[[[[[[[[",
    b"<<",
    b"%",
    b"\"",
    b"'",
    b"/",
    b"#",
    b"\\",
];

fn gen_op(r: &mut Rng, len: usize, others: &[(String, usize)]) -> Op {
    let pos = |r: &mut Rng| if len == 0 { 0 } else { r.usize(len + 1) };
    match r.below(16) {
        12..=15 => Op::Token { seed: r.next(), kind: r.below(7) as u8 },
        0 | 1 => Op::Truncate(pos(r)),
        2 => Op::ZeroTail(pos(r)),
        3 => {
            let a = pos(r);
            Op::Drop(a, 1 + r.usize(64))
        }
        4 => {
            let a = pos(r);
            Op::Dup(a, 1 + r.usize(200))
        }
        5 if !others.is_empty() => {
            let (from, flen) = others[r.usize(others.len())].clone();
            Op::Splice { from, at: pos(r), src: if flen == 0 { 0 } else { r.usize(flen) }, len: 1 + r.usize(200) }
        }
        6 | 7 => {
            let n = 1 + r.usize(8);
            Op::FlipBits((0..n).map(|_| (if len == 0 { 0 } else { r.usize(len) }, 1u8 << r.usize(8))).collect())
        }
        8 => {
            let n = 1 + r.usize(16);
            let mut b = vec![0u8; n];
            r.fill(&mut b);
            Op::Overwrite(pos(r), b)
        }
        9 | 10 => Op::Insert(pos(r), r.pick(INSERTS).to_vec()),
        _ => Op::Crlf,
    }
}

fn apply(op: &Op, b: &mut Vec<u8>, lookup: &dyn Fn(&str) -> Vec<u8>) {
    match op {
        Op::Truncate(k) => b.truncate(*k),
        Op::ZeroTail(k) => {
            for x in b.iter_mut().skip(*k) {
                *x = 0;
            }
        }
        Op::Drop(a, n) => {
            let a = (*a).min(b.len());
            let e = (a + n).min(b.len());
            b.drain(a..e);
        }
        Op::Dup(a, n) => {
            let a = (*a).min(b.len());
            let e = (a + n).min(b.len());
            let blk: Vec<u8> = b[a..e].to_vec();
            let at = e;
            b.splice(at..at, blk);
        }
        Op::Splice { from, at, src, len } => {
            let o = lookup(from);
            let s = (*src).min(o.len());
            let e = (s + len).min(o.len());
            let at = (*at).min(b.len());
            b.splice(at..at, o[s..e].to_vec());
        }
        Op::FlipBits(fl) => {
            for (i, m) in fl {
                if let Some(x) = b.get_mut(*i) {
                    *x ^= m;
                }
            }
        }
        Op::Overwrite(a, bytes) => {
            for (i, x) in bytes.iter().enumerate() {
                if let Some(y) = b.get_mut(a + i) {
                    *y = *x;
                }
            }
        }
        Op::Insert(a, bytes) => {
            let a = (*a).min(b.len());
            b.splice(a..a, bytes.clone());
        }
        Op::Token { seed, kind } => {
            const DICT: &[&str] = &[
                "{", "}", "[", "]", "(", ")", "or", "OR", "|OR|", "when", "WHEN", "rule", "let", "not", "!", "some", "SOME", "this", "keys", "==", "!=", ">=", "<=", ">", "<", "in", "IN", "exists", "empty",
                "!exists", "!empty", "is_string", "is_list", "is_struct", "<<", ">>", "<<msg>>", "%", "%v1", "*", ".*", "[*]", "[0]", "[-1]", "r[1,", "r(", "/re/", "/(/", "'", "\"", "#", ":=", "=", ",", ":", "null", "true",
                "99999999999999999999", "-9223372036854775808", "1e999", "1e+999", "1e+309", "9.9e+400", "1e-999", "0.0", "1.", ".5", "0x10", "count(", "now()", "join(", "parse_int(", "AWS::S3::Bucket", "AWS::", "::", "a.b.c.d.e.f.g.h", "[ a == 1 ]", "[ keys == /a/ ]", "[ k | a exists ]",
            ];
            let mut r = Rng::new(*seed);
            if *kind <= 3 {
                // split into runs of whitespace / non-whitespace, keeping everything
                let mut toks: Vec<Vec<u8>> = Vec::new();
                let mut cur: Vec<u8> = Vec::new();
                let mut cur_ws = false;
                for x in b.iter() {
                    let ws = x.is_ascii_whitespace();
                    if !cur.is_empty() && ws != cur_ws {
                        toks.push(std::mem::take(&mut cur));
                    }
                    cur_ws = ws;
                    cur.push(*x);
                }
                if !cur.is_empty() {
                    toks.push(cur);
                }
                let words: Vec<usize> = (0..toks.len()).filter(|i| !toks[*i][0].is_ascii_whitespace()).collect();
                if !words.is_empty() {
                    let i = words[r.usize(words.len())];
                    match kind {
                        0 => {
                            toks.remove(i);
                        }
                        1 => {
                            let t = toks[i].clone();
                            toks.insert(i, b" ".to_vec());
                            toks.insert(i, t);
                        }
                        2 => {
                            let j = words[r.usize(words.len())];
                            toks.swap(i, j);
                        }
                        _ => toks[i] = r.pick(DICT).as_bytes().to_vec(),
                    }
                    *b = toks.concat();
                }
            } else {
                let mut lines: Vec<Vec<u8>> = b.split_inclusive(|x| *x == b'\n').map(|l| l.to_vec()).collect();
                if lines.len() > 1 {
                    let i = r.usize(lines.len());
                    match kind {
                        4 => {
                            let j = r.usize(lines.len());
                            lines.swap(i, j);
                        }
                        5 => {
                            let l = lines[i].clone();
                            lines.insert(i, l);
                        }
                        _ => {
                            lines.remove(i);
                        }
                    }
                    *b = lines.concat();
                }
            }
        }
        Op::Crlf => {
            let mut out = Vec::with_capacity(b.len() + 16);
            for x in b.iter() {
                if *x == b'\n' {
                    out.push(b'\r');
                }
                out.push(*x);
            }
            *b = out;
        }
    }
}

// ---------------------------------------------------------------------------------------
// classification
// ---------------------------------------------------------------------------------------

fn allowed_codes(class: &str) -> &'static [i32] {
    if class.starts_with("validate") {
        &[0, 5, 19]
    } else if class.starts_with("test") {
        &[0, 1, 7]
    } else {
        &[0]
    }
}

pub struct Finding {
    pub sig: String,
    pub what: String,
}

/// The oracle for one finished step.
/// Rule names a run reports as evaluated: from the rule-name fields of JSON reports (a data
/// value or key that merely contains the same text is not a report of the rule). The flag
/// says whether any JSON report was seen (console text is matched as `<file>/<rule>` instead).
fn reported_rules(so: &str) -> (bool, Vec<String>) {
    let mut reported: Vec<String> = Vec::new();
    let docs: Option<Vec<serde_json::Value>> = crate::c12::parse_json_stream(so.as_bytes());
    let mut json_seen = false;
    if let Some(docs) = docs {
        let mut stack: Vec<serde_json::Value> = docs;
        while let Some(v) = stack.pop() {
            match v {
                serde_json::Value::Array(a) => stack.extend(a),
                serde_json::Value::Object(o) => {
                    if o.contains_key("not_compliant") || o.contains_key("compliant") {
                        json_seen = true;
                        for k in ["compliant", "not_applicable"] {
                            if let Some(a) = o.get(k).and_then(|x| x.as_array()) {
                                reported.extend(a.iter().filter_map(|x| x.as_str().map(String::from)));
                            }
                        }
                        if let Some(a) = o.get("not_compliant").and_then(|x| x.as_array()) {
                            reported.extend(a.iter().filter_map(|e| e.get("Rule").and_then(|r| r.get("name")).and_then(|n| n.as_str()).map(String::from)));
                        }
                    }
                }
                _ => {}
            }
        }
    }
    (json_seen, reported)
}

fn classify_step(st: &StepT, s: &StepOut, rule_files: &[(String, Vec<String>, usize, bool)], read_faults: bool) -> Vec<Finding> {
    let mut out = Vec::new();
    match s.res.outcome.as_str() {
        "panic" => {
            let loc = short_loc(&s.res.panic_loc);
            out.push(Finding { sig: format!("panic:{loc}"), what: format!("panic at {} ({}) in `{}`", loc, s.res.panic_msg.chars().take(80).collect::<String>(), st.class) });
            return out;
        }
        "usage" => {
            out.push(Finding { sig: format!("harness:usage:{}", st.class), what: format!("clap rejected a generated argv for {}", st.class) });
            return out;
        }
        "exit" => {
            if !allowed_codes(&st.class).contains(&s.res.code) {
                out.push(Finding { sig: format!("exit-code:{}:{}", st.class.split('-').next().unwrap_or(""), s.res.code), what: format!("`{}` returned undocumented exit code {}", st.class, s.res.code) });
            }
        }
        "err" => {
            // diagnostic error: fine, but it must be a message, not empty
            if s.res.err.trim().is_empty() {
                out.push(Finding { sig: format!("empty-error:{}", st.class), what: format!("`{}` failed with an empty error message", st.class) });
            }
            // a rules-file parse error names a line and a column
            if s.res.err.contains("Parsing Error") && !(s.res.err.contains("at line ") && s.res.err.contains("at column ")) {
                out.push(Finding { sig: "parse-diagnostic:no-position".into(), what: format!("`{}`: parse error without line/column: {}", st.class, s.res.err.chars().take(160).collect::<String>()) });
            }
        }
        _ => {}
    }
    // (4) a rules file reported as failing to parse is rejected as a whole, with line and column
    if st.class.starts_with("validate") && !st.class.contains("payload") {
        let err = String::from_utf8_lossy(&strip_ansi(&s.stderr)).into_owned();
        let so = String::from_utf8_lossy(&strip_ansi(&s.stdout)).into_owned();
        for (fname, rule_names, nlines, _) in rule_files {
            let marker = format!("Parsing error handling rule file = {}", fname);
            if let Some(p) = err.find(&marker) {
                let tail = &err[p..];
                let seg_end = tail[1..].find("Parsing error handling rule file").map(|x| x + 1).unwrap_or(tail.len());
                let seg = &tail[..seg_end];
                let ok_pos = (|| {
                    let l = seg.find("at line ")?;
                    let rest = &seg[l + 8..];
                    let ln: usize = rest.split(' ').next()?.parse().ok()?;
                    let c = rest.find("at column ")?;
                    let cn: usize = rest[c + 10..].split(|ch: char| !ch.is_ascii_digit()).next()?.parse().ok()?;
                    Some((ln, cn))
                })();
                match ok_pos {
                    None => out.push(Finding { sig: "parse-diagnostic:no-position".into(), what: format!("parse error for {} names no line/column: {}", fname, seg.chars().take(160).collect::<String>()) }),
                    Some((ln, _cn)) => {
                        if ln == 0 || ln > nlines + 1 {
                            out.push(Finding { sig: "parse-diagnostic:line-out-of-range".into(), what: format!("parse error for {} names line {} of {}", fname, ln, nlines) });
                        }
                    }
                }
                let (json_seen, reported) = reported_rules(&so);
                for rn in rule_names {
                    let hit = if json_seen { reported.iter().any(|x| x == rn) } else { so.contains(&format!("{}/{}", fname, rn)) };
                    if hit {
                        out.push(Finding { sig: "parse-rejected-file-evaluated".into(), what: format!("rules file {} failed to parse but its rule {} appears in the report", fname, rn) });
                        break;
                    }
                }
            }
        }
        // (5) a rules file KNOWN not to conform to the grammar (a line of stray brackets at top
        // level, after the last rule) must be rejected whatever the tool says about it
        let whole_dir = st.argv.iter().any(|a| a == "@/rules");
        for (fname, rule_names, _, known_bad) in rule_files {
            // (under injected read faults the tool may legitimately see a shorter, valid file)
            if read_faults || !*known_bad || !(whole_dir || st.argv.iter().any(|a| a.ends_with(&format!("rules/{}", fname)))) {
                continue;
            }
            let (json_seen, reported) = reported_rules(&so);
            for rn in rule_names {
                let hit = if json_seen { reported.iter().any(|x| x == rn) } else { so.contains(&format!("{}/{}", fname, rn)) };
                if hit {
                    out.push(Finding { sig: "ungrammatical-file-evaluated".into(), what: format!("rules file {} does not conform to the grammar (stray brackets after its last rule) but its rule {} appears in the report of `{}`", fname, rn, st.class) });
                    break;
                }
            }
            if s.res.outcome == "exit" && !err.contains(&format!("Parsing error handling rule file = {}", fname)) && !err.contains("Unable read content") && !err.contains("did not contain valid UTF-8") {
                out.push(Finding { sig: "ungrammatical-file-not-rejected".into(), what: format!("rules file {} does not conform to the grammar but `{}` (exit {}) reports no parse error for it", fname, st.class, s.res.code) });
            }
        }
    }
    out
}

fn classify_death(st: &StepT, o: &ExecOut) -> Finding {
    let cerr = String::from_utf8_lossy(&o.child_stderr).into_owned();
    if o.end == "signal:24" {
        // SIGXCPU: the command consumed its whole CPU budget (10 s + 0.25 s per command)
        return Finding { sig: format!("hang:{}", st.class.split('-').next().unwrap_or("")), what: format!("`{}` did not terminate within its CPU budget (SIGXCPU)", st.class) };
    }
    if cerr.contains("has overflowed its stack") {
        return Finding { sig: "abort:stack-overflow".into(), what: format!("`{}` overflowed its stack and aborted ({})", st.class, o.end) };
    }
    if let Some(code) = o.end.strip_prefix("exit:") {
        return Finding { sig: format!("process-exit:{}:{}", st.class.split('-').next().unwrap_or(""), code), what: format!("`{}` called process::exit({})", st.class, code) };
    }
    Finding { sig: format!("{}:{}", o.end, st.class.split('-').next().unwrap_or("")), what: format!("`{}` killed: {} ({})", st.class, o.end, cerr.lines().last().unwrap_or("").chars().take(100).collect::<String>()) }
}

// ---------------------------------------------------------------------------------------

#[derive(Clone, Debug)]
pub struct Scn8 {
    pub files: Vec<FileSpec>,
    pub steps: Vec<StepT>,
    pub faults: FaultSpec,
    /// (file name as the tool prints it, unique rule names, number of lines) per rules file
    /// (file name, its rule names, line count, known not to conform to the grammar)
    pub rule_files: Vec<(String, Vec<String>, usize, bool)>,
    /// storage-fault kinds applied (sorted, deduplicated), for the coverage key
    pub fault_kinds: String,
}

impl C08 {
    /// run all steps (re-launching after a death); returns findings with the step index
    fn run(&self, w: &mut Work, scn: &Scn8, rep: &mut Report) -> Vec<(usize, Finding)> {
        let mut found = Vec::new();
        let mut start = 0usize;
        let mut hang_deaths = 0;
        while start < scn.steps.len() {
            if hang_deaths >= 3 {
                // a tree that hangs: three instances from this scenario are enough
                rep.count("cut.scenario_after_three_hangs", 1);
                break;
            }
            let mut req = w.req();
            req.sim.faults = scn.faults.clone();
            req.steps = scn.steps[start..].iter().enumerate().map(|(i, s)| s.to_step_occ(&w.root, start + i)).collect();
            let o = w.run(&req);
            rep.absorb_exec(&o);
            let mut next = scn.steps.len();
            for (i, s) in o.steps.iter().enumerate() {
                let gi = start + i;
                if o.died_in == Some(i) && o.end == "stalled" {
                    rep.harness_error = Some(format!("host stalled: `{}` did not finish within 9x the wall-clock budget although it used no CPU budget", scn.steps[gi].class));
                    return found;
                }
                if o.died_in == Some(i) {
                    let f = classify_death(&scn.steps[gi], &o);
                    if f.sig.starts_with("hang:") {
                        hang_deaths += 1;
                    }
                    // rulegen's own exit(1) on an unusable template is its documented error path
                    if !(scn.steps[gi].class == "rulegen" && o.end == "exit:1") {
                        found.push((gi, f));
                    } else {
                        rep.count("outcome.rulegen_exit1", 1);
                    }
                    next = gi + 1;
                    break;
                }
                rep.count(&format!("outcome.{}", s.res.outcome), 1);
                rep.classes.push(format!("{}|{}:{}|storage[{}]|readfaults:{}", scn.steps[gi].class, s.res.outcome, s.res.code, scn.fault_kinds, scn.faults != FaultSpec::Off));
                if s.res.outcome == "exit" {
                    rep.count(&format!("exit.{}.{}", scn.steps[gi].class.split('-').next().unwrap_or(""), s.res.code), 1);
                }
                let es = String::from_utf8_lossy(&s.stderr);
                if es.contains("Parsing error handling rule file") {
                    rep.count("reach.rules_parse_error_reported", 1);
                }
                for f in classify_step(&scn.steps[gi], s, &scn.rule_files, scn.faults != FaultSpec::Off) {
                    found.push((gi, f));
                }
            }
            if o.died_in.is_none() && o.end != "ok" {
                // died outside any step (harness problem)
                rep.harness_error = Some(format!("child ended {} outside a step: {}", o.end, String::from_utf8_lossy(&o.child_stderr)));
                break;
            }
            start = next;
        }
        found
    }

    fn has(&self, w: &mut Work, scn: &Scn8, sig: &str, execs: &mut u64) -> bool {
        w.materialise(&scn.files);
        let mut rep = Report::default();
        let f = self.run(w, scn, &mut rep);
        *execs += rep.execs;
        f.iter().any(|(_, f)| f.sig == sig)
    }

    fn to_json(&self, scn: &Scn8) -> Value {
        json!({"files": files_to_json(&scn.files), "steps": scn.steps.iter().map(|s| s.to_json()).collect::<Vec<_>>(), "faults": serde_json::to_value(&scn.faults).unwrap(),
               "rule_files": scn.rule_files.iter().map(|(a, b, c, d)| json!([a, b, c, d])).collect::<Vec<_>>()})
    }

    fn from_json(&self, v: &Value) -> Option<Scn8> {
        Some(Scn8 {
            files: files_from_json(v.get("files")?),
            steps: v.get("steps")?.as_array()?.iter().filter_map(StepT::from_json).collect(),
            faults: serde_json::from_value(v.get("faults")?.clone()).ok()?,
            rule_files: v
                .get("rule_files")?
                .as_array()?
                .iter()
                .filter_map(|x| {
                    let a = x.as_array()?;
                    Some((a.get(0)?.as_str()?.to_string(), a.get(1)?.as_array()?.iter().filter_map(|s| s.as_str().map(String::from)).collect(), a.get(2)?.as_u64()? as usize, a.get(3).and_then(|b| b.as_bool()).unwrap_or(false)))
                })
                .collect(),
            fault_kinds: String::new(),
        })
    }

    /// byte-level minimisation: one step, no read faults if possible, drop unneeded files,
    /// then delta-debug the bytes of each remaining input file.
    fn minimise(&self, w: &mut Work, scn0: &Scn8, si: usize, sig: &str) -> (Scn8, u64) {
        let mut execs = 0u64;
        // every trial that still hangs costs a whole CPU budget: few trials for hangs, and
        // under the short budget (the caller re-confirms the result under the full one)
        let hang = sig.starts_with("hang:");
        let budget = if hang { 40u64 } else { 400u64 };
        w.short_cpu_budget = hang;
        let res = self.minimise_inner(w, scn0, si, sig, budget, &mut execs);
        w.short_cpu_budget = false;
        (res, execs)
    }

    fn minimise_inner(&self, w: &mut Work, scn0: &Scn8, si: usize, sig: &str, budget: u64, execs_out: &mut u64) -> Scn8 {
        let mut execs = 0u64;
        let mut scn = scn0.clone();
        let mut si = si;
        // read faults are drawn per seam call, so removing steps shifts them: try without first
        if scn.faults != FaultSpec::Off {
            let c = Scn8 { faults: FaultSpec::Off, ..scn.clone() };
            if self.has(w, &c, sig, &mut execs) {
                scn = c;
            }
        }
        if scn.steps.len() > 1 {
            let c = Scn8 { steps: vec![scn.steps[si].clone()], ..scn.clone() };
            if self.has(w, &c, sig, &mut execs) {
                scn = c;
                si = 0;
            } else if std::env::var_os("GSIM_DEBUG").is_some() {
                eprintln!("minimise: single step {} ({}) does not reproduce {}", si, scn.steps[si].argv.join(" "), sig);
            }
        }
        let _ = si;
        if scn.faults != FaultSpec::Off {
            let c = Scn8 { faults: FaultSpec::Off, ..scn.clone() };
            if self.has(w, &c, sig, &mut execs) {
                scn = c;
            } else {
                // script the fired events, then drop them greedily
                w.materialise(&scn.files);
                let mut req = w.req();
                req.sim.faults = scn.faults.clone();
                req.steps = scn.steps.iter().enumerate().map(|(i, s)| s.to_step_occ(&w.root, i)).collect();
                let o = w.run(&req);
                execs += 1;
                if let Some(f) = o.fin.as_ref() {
                    let mut evs = f.events.clone();
                    let c = Scn8 { faults: FaultSpec::Script { events: evs.clone() }, ..scn.clone() };
                    if self.has(w, &c, sig, &mut execs) {
                        scn = c;
                        let mut i = 0;
                        while i < evs.len() && execs < budget / 2 {
                            let mut cand = evs.clone();
                            cand.remove(i);
                            let c = Scn8 { faults: FaultSpec::Script { events: cand.clone() }, ..scn.clone() };
                            if self.has(w, &c, sig, &mut execs) {
                                evs = cand;
                                scn = c;
                            } else {
                                i += 1;
                            }
                        }
                    }
                }
            }
        }
        // drop whole files
        let mut i = 0;
        while i < scn.files.len() && execs < budget {
            let mut c = scn.clone();
            c.files.remove(i);
            if self.has(w, &c, sig, &mut execs) {
                scn = c;
            } else {
                i += 1;
            }
        }
        // ddmin over bytes of each file (largest first)
        let mut order: Vec<usize> = (0..scn.files.len()).collect();
        order.sort_by_key(|i| std::cmp::Reverse(scn.files[*i].bytes.len()));
        for fi in order {
            // the "known not to conform to the grammar" label belongs to the bytes as generated
            if sig.starts_with("ungrammatical-") && scn.rule_files.iter().any(|(f, _, _, bad)| *bad && scn.files[fi].rel.ends_with(&format!("rules/{}", f))) {
                continue;
            }
            let mut chunk = (scn.files[fi].bytes.len() + 1) / 2;
            while chunk >= 1 && execs < budget {
                let mut pos = 0;
                let mut progressed = false;
                while pos < scn.files[fi].bytes.len() && execs < budget {
                    let mut c = scn.clone();
                    let end = (pos + chunk).min(c.files[fi].bytes.len());
                    c.files[fi].bytes.drain(pos..end);
                    if self.has(w, &c, sig, &mut execs) {
                        scn = c;
                        progressed = true;
                    } else {
                        pos += chunk;
                    }
                }
                if chunk == 1 && !progressed {
                    break;
                }
                chunk = if chunk == 1 { 1 } else { (chunk + 1) / 2 };
                if chunk == 1 && scn.files[fi].bytes.len() > 200 {
                    break;
                }
            }
        }
        *execs_out = execs;
        scn
    }

    fn gen(&self, seed: u64, rep: &mut Report) -> Scn8 {
        let mut r = Rng::stream(seed, "workload");
        let adversarial = r.chance(1, 2);
        let cyclic = r.chance(1, 8);
        let mut o = WlOpts::default();
        o.bad_expectations = true;
        o.tf_bias = 4;
        o.gen = GenOpts { adversarial, cyclic, allow_now: true, ..Default::default() };
        let mut wl = gen_workload(&mut r, &o);
        // unique rule names per rules file, for attribution
        for (i, p) in wl.progs.iter_mut().enumerate() {
            let tag = ["qa", "qb", "qc", "qd"][i % 4];
            let text_names: Vec<String> = p.rules.iter().map(|r| r.name.clone()).collect();
            for rr in p.rules.iter_mut() {
                rr.name = format!("{}_{}", tag, rr.name);
            }
            rename_refs(p, &text_names, tag);
        }
        // expectations must follow the renaming
        let names0 = wl.progs[0].rule_names();
        for t in wl.tests.iter_mut() {
            for (k, _) in t.expect.iter_mut() {
                if let Some(n) = names0.iter().find(|n| n.ends_with(&format!("_{}", k))) {
                    *k = n.clone();
                }
            }
        }
        if adversarial {
            rep.count("gen.adversarial", 1);
        }
        if cyclic {
            rep.count("gen.cyclic", 1);
        }
        let mut files = wl.files();
        // UTF-8 density knob: a third of the scenarios carry multi-byte comments on every
        // line of their rules and YAML files (meaning unchanged)
        if r.chance(1, 3) {
            rep.count("gen.utf8_dense", 1);
            for f in files.iter_mut() {
                if f.rel.ends_with(".guard") || f.rel.ends_with(".yaml") {
                    f.bytes = utf8_densify(&mut r, &f.bytes);
                }
            }
        }
        // storage fault sequence
        let nops = match r.below(8) {
            0 | 1 => 0,
            2..=4 => 1,
            5 => 2,
            6 => 3,
            _ => 4,
        };
        let targets: Vec<usize> = (0..files.len()).collect();
        let mut applied = Vec::new();
        for _ in 0..nops {
            let ti = {
                // weight rules and data files higher
                let c = r.below(100);
                let want = if c < 40 {
                    "rules/"
                } else if c < 62 {
                    "data/"
                } else if c < 75 {
                    "tests/"
                } else if c < 82 {
                    "tdir/"
                } else if c < 88 {
                    "params/"
                } else if c < 95 {
                    "stdin/"
                } else {
                    "tmpl/"
                };
                let cands: Vec<usize> = targets.iter().copied().filter(|i| files[*i].rel.starts_with(want)).collect();
                if cands.is_empty() {
                    targets[r.usize(targets.len())]
                } else {
                    cands[r.usize(cands.len())]
                }
            };
            let others: Vec<(String, usize)> = files.iter().enumerate().filter(|(i, _)| *i != ti).map(|(_, f)| (f.rel.clone(), f.bytes.len())).collect();
            let op = gen_op(&mut r, files[ti].bytes.len(), &others);
            let snapshot = files.clone();
            let lookup = move |rel: &str| snapshot.iter().find(|f| f.rel == rel).map(|f| f.bytes.clone()).unwrap_or_default();
            apply(&op, &mut files[ti].bytes, &lookup);
            rep.count(&format!("storage_fault.{}", op.name()), 1);
            applied.push((files[ti].rel.clone(), op.name()));
        }
        if nops == 0 {
            rep.count("gen.zero_fault", 1);
        }
        // unusual-but-legal whole documents in place of a data / test / template file
        if r.chance(1, 3) {
            const DOCS: &[&[u8]] = &[
                b"# only a comment\n", b"---\n", b"--- \n...\n", b"{}", b"[]", b"null", b"~", b"1", b"\"just a string\"", b"- a\n- b\n", b"---\n# c\n---\n",
                b"a: &x [1, 2]\nb: *x\n", b"a: &x {k: 1}\nb:\n  <<: *x\n  j: 2\n", b"? [complex, key]\n: value\n", b"a: !!binary aGVsbG8=\n", b"a: !Ref b\nc: !GetAtt d.e\nf: !Sub '${g}'\n",
                b"a: .inf\nb: -.inf\nc: .nan\nd: 0x1F\ne: 0o17\nf: 1_000\ng: 2001-12-14t21:59:43.10-05:00\n", b"a: 123456789012345678901234567890\nb: 1e999\nc: -0\n",
                b"{\"a\": 123456789012345678901234567890, \"b\": 1e999, \"c\": -0.0}", b"a: |\n  line1\n  line2\nb: >-\n  folded\n  text\n", b"%YAML 1.2\n---\na: 1\n", b"\ta: 1\n",
                b"a: !Cidr [\"10.0.0.0/16\", 4, 8]\n", b"a: !Join [\",\", [x, y]]\nb: !Select [0, !GetAZs \"\"]\n", b"a: !Foo []\nb: !Foo {k: v}\nc: !Foo bar\n", b"a: !If [c, x, y]\nb: !Equals [x, y]\nc: !And [x]\nd: !Not [x]\ne: !Or [x, y]\n",
                b"a: !FindInMap [m, k1, k2]\nb: !Split [\",\", \"x,y\"]\nc: !ImportValue v\nd: !Base64 text\ne: !Length [1, 2]\nf: !ToJsonString {k: v}\n", b"Resources:\n  A:\n    Type: AWS::X::Y\n    Properties:\n      P: !Cidr [x, 1, 2]\n      Q: !Ref R\n      S: !GetAtt [A, Arn]\n      T: !Sub [\"${v}\", {v: 1}]\n",
                b"- !Foo [1]\n- !Ref x\n", b"!Foo [1, 2]\n", b"a: !<tag:yaml.org,2002:seq> [1]\nb: !!seq [1]\nc: !!map {k: v}\nd: !!str 5\ne: !!int \"5\"\nf: !!float 1\ng: !!null null\nh: !!bool yes\n",
                b"a: 1\na: 2\n", b"{\"a\": 1, \"a\": {\"b\": 2}}", b"1: x\ntrue: y\nnull: z\n2.5: w\n[1, 2]: v\n", b"a: &x [*x]\n", b"a: &x {k: *x}\n", b"a: *nope\n", b"&r r: *r\n",
                b"a: \"nul\\0byte\"\nb: 'x'\n", b"a: \x00\n", b"<<: {a: 1}\nb: 2\n", b"a: &m {x: 1}\nb: {<<: [*m, *m], y: 2}\n", b"---\na: 1\n---\nb: 2\n...\n---\n", b"--- !!map\na: 1\n", b"a: !!python/object:os.system x\n",
                b"a: 9223372036854775807\nb: 9223372036854775808\nc: -9223372036854775808\nd: -9223372036854775809\ne: 1.7976931348623157e308\nf: 1.8e308\ng: 4.9e-324\nh: 0.1e-400\n", b"{\"a\": 9223372036854775808, \"b\": -9223372036854775809, \"c\": 1.8e308, \"d\": 18446744073709551615, \"e\": 18446744073709551616}",
                b"a: 0x7fffffffffffffff\nb: 0xffffffffffffffffff\nc: 0o7777777777777777777777\nd: 1_0\ne: +1\nf: 1e3\ng: .5\nh: 5.\ni: 0b101\nj: 1:30\n", b"a: yes\nb: No\nc: ON\nd: off\ne: y\nf: n\ng: ~\nh: Null\ni: TRUE\n",
                b"a: +\nb: [-]\nc: !Join [-, [x, y]]\nd: .\ne: -.\nf: +.\ng: e\nh: -e1\ni: 0x\nj: 0o\nk: _\nl: 1_\nm: -_1\nn: ++1\no: --1\np: 1e\nq: 1e+\nr: .e1\ns: \"\"\nt: ''\n", b"[+, -, ., ~, '', -0, +0, 0., .0, -.0, 1., .inf, -.INF, .NaN, NaN, inf, Infinity, 0e0, 1E400]\n",
                b"Resources: 7\n", b"Resources: []\n", b"Resources:\n  A: 5\n", b"Resources:\n  A:\n    Properties:\n      P: 1\n", b"Resources:\n  A:\n    Type: 5\n    Properties:\n      P: 1\n",
                b"Resources:\n  A:\n    Type: [a]\n    Properties: {P: {Q: [1, {R: null}]}}\n", b"Resources:\n  A:\n    Type: AWS::X::Y\n    Properties: [1, 2]\n", b"{\"Resources\": {\"A\": {\"Type\": \"AWS::X::Y\", \"Properties\": {\"P\": \"a\\nb\", \"Q\": \"\\\"q\\\"\"}}}}",
            ];
            let cands: Vec<usize> = (0..files.len()).filter(|i| files[*i].rel.starts_with("data/") || files[*i].rel.starts_with("tmpl/") || files[*i].rel.starts_with("tests/") || files[*i].rel.starts_with("params/") || files[*i].rel == "stdin/data.json").collect();
            if !cands.is_empty() {
                let i = cands[r.usize(cands.len())];
                files[i].bytes = if r.chance(1, 6) {
                    // big but shallow: a very long scalar, a very long key, a long list / map (sizes kept
                    // where a clause over every element still costs well under a second: the CPU
                    // allowance decides hangs, and slowness is not what the property is about)
                    match r.below(5) {
                        0 => format!("a: \"{}\"\n", "x".repeat(70_000)).into_bytes(),
                        1 => format!("{{\"{}\": 1}}", "k".repeat(70_000)).into_bytes(),
                        2 => format!("a: [{}]\n", vec!["1"; 60].join(", ")).into_bytes(),
                        3 => (0..60).map(|i| format!("k{}: {}\n", i, i)).collect::<String>().into_bytes(),
                        _ => format!("a: |\n{}", "  line\n".repeat(3_000)).into_bytes(),
                    }
                } else {
                    r.pick(DOCS).to_vec()
                };
                rep.count("storage_fault.replaced_by_unusual_document", 1);
                applied.push((files[i].rel.clone(), "unusual_document"));
            }
        }
        // read-path faults
        let faults = if r.chance(1, 3) {
            FaultSpec::Random {
                seed: r.next(),
                rates: RatesSpec {
                    read_short: *r.pick(&[0u8, 64, 200]),
                    read_eintr: *r.pick(&[0u8, 16]),
                    read_eio: *r.pick(&[0u8, 4, 24]),
                    read_eof: *r.pick(&[0u8, 4, 24]),
                    write_short: *r.pick(&[0u8, 64]),
                    write_eintr: *r.pick(&[0u8, 16]),
                    open_fail: *r.pick(&[0u8, 0, 16, 64]),
                    max_short: 1 + r.below(16) as u32,
                },
            }
        } else {
            FaultSpec::Off
        };
        // commands: always a structured validate over everything, plus 2-4 from the menu
        let mut steps = vec![StepT {
            class: "validate-structured-json".into(),
            mode: Mode::Exact,
            kind: "cli".into(),
            argv: ["cfn-guard", "validate", "-r", "@/rules", "-d", "@/data", "--structured", "-o", "json", "-S", "none"].iter().map(|s| s.to_string()).collect(),
            stdin: None,
            out: None,
            rc: None,
            dir_order_defined: true,
        }];
        if !wl.params.is_empty() {
            steps[0].argv.push("-i".into());
            steps[0].argv.push("@/params".into());
        }
        let extra = 2 + r.usize(3);
        for _ in 0..extra {
            let mut st = gen_step(&mut r, &wl);
            // run_checks takes its inputs inline: use the (possibly corrupted) bytes, lossily
            if let Some(rc) = &mut st.rc {
                if let Some(f) = files.iter().find(|f| f.rel == rules_rel(0)) {
                    rc.rules = String::from_utf8_lossy(&f.bytes).into_owned();
                }
                if let Some(f) = files.iter().find(|f| f.rel.starts_with("data/d0.")) {
                    rc.data = String::from_utf8_lossy(&f.bytes).into_owned();
                }
            }
            steps.push(st);
        }
        // a rules file of its own with a built-in function called with the wrong number of
        // arguments (the parser rejects it; whatever happens it must not crash later)
        if r.chance(1, 8) {
            let text = *r.pick(&["let x = join(a)\nrule zz_arity {\n  %x exists\n}\n", "let x = substring(a, 1)\nrule zz_arity {\n  %x exists\n}\n", "let x = regex_replace(a, \"b\")\nrule zz_arity {\n  %x exists\n}\n", "let x = count()\nrule zz_arity {\n  %x exists\n}\n", "let x = to_upper(a, b)\nrule zz_arity {\n  %x exists\n}\n", "let x = join(a, \",\", b)\nrule zz_arity {\n  %x exists\n}\n", "let x = now(1)\nrule zz_arity {\n  %x exists\n}\n"]);
            files.push(FileSpec { rel: "rules/zz_arity.guard".into(), bytes: text.as_bytes().to_vec(), mtime_ns: 0 });
            rep.count("gen.wrong_arity_rules_file", 1);
        }
        // one rules file that is KNOWN not to conform to the grammar: a line of stray brackets at
        // top level after its last rule (only a file no storage fault has touched, so that the
        // line cannot sit inside a string, a message or a comment)
        let mut known_bad: Option<usize> = None;
        if r.chance(1, 5) {
            let i = r.usize(wl.progs.len());
            let rel = rules_rel(i);
            if !applied.iter().any(|(f, _)| *f == rel) {
                if let Some(f) = files.iter_mut().find(|f| f.rel == rel) {
                    f.bytes.extend_from_slice(*r.pick(&[&b"\n}} ]] ((\n"[..], &b"\n]]\n"[..], &b"\nrule {\n"[..], &b"\n)) }}\n"[..]]));
                    known_bad = Some(i);
                    rep.count("gen.known_ungrammatical_rules_file", 1);
                }
            }
        }
        let rule_files = wl
            .progs
            .iter()
            .enumerate()
            .map(|(i, p)| {
                let text = files.iter().find(|f| f.rel == rules_rel(i)).map(|f| f.bytes.clone()).unwrap_or_default();
                (format!("r{}.guard", i), p.rule_names(), text.iter().filter(|b| **b == b'\n').count() + 1, known_bad == Some(i))
            })
            .collect();
        let mut kinds: Vec<&str> = applied.iter().map(|(_, k)| *k).collect();
        kinds.sort();
        kinds.dedup();
        Scn8 { files, steps, faults, rule_files, fault_kinds: kinds.join("+") }
    }

    /// Exhaustive sub-space: every truncation point (and every single-bit flip in the first
    /// 256 bytes) of one small file, batched many variants per process.
    fn exhaustive(&self, w: &mut Work, scn: &Scn8, rep: &mut Report, with_flips: bool) -> Vec<(Scn8, Finding)> {
        let mut out = Vec::new();
        let plans: &[(&str, &str)] = &[("rules/r0.guard", "rules"), ("data/d0.", "data"), ("tests/r0_tests.json", "tests")];
        for (prefix, kind) in plans {
            let base = match scn.files.iter().find(|f| f.rel.starts_with(prefix)) {
                Some(f) => f.clone(),
                None => continue,
            };
            if base.bytes.len() > 1500 || base.bytes.is_empty() {
                continue;
            }
            let ext = base.rel.rsplit('.').next().unwrap_or("x").to_string();
            let mut variants: Vec<(String, Vec<u8>)> = Vec::new();
            for k in 0..=base.bytes.len() {
                variants.push((format!("t{k}"), base.bytes[..k].to_vec()));
            }
            if with_flips {
                for i in 0..base.bytes.len().min(256) {
                    for bit in 0..8 {
                        let mut b = base.bytes.clone();
                        b[i] ^= 1 << bit;
                        variants.push((format!("f{i}_{bit}"), b));
                    }
                }
            }
            rep.count(&format!("exhaustive.{kind}.variants"), variants.len() as u64);
            for batch in variants.chunks(96) {
                let mut files = scn.files.clone();
                let mut steps = Vec::new();
                for (tag, bytes) in batch {
                    let rel = format!("xh/{tag}.{ext}");
                    files.push(FileSpec { rel: rel.clone(), bytes: bytes.clone(), mtime_ns: 0 });
                    let d0 = scn.files.iter().find(|f| f.rel.starts_with("data/d0.")).map(|f| f.rel.clone()).unwrap_or_default();
                    let argv: Vec<String> = match *kind {
                        "rules" => vec!["cfn-guard".into(), "validate".into(), "-r".into(), format!("@/{rel}"), "-d".into(), format!("@/{d0}"), "--structured".into(), "-o".into(), "json".into(), "-S".into(), "none".into()],
                        "data" => vec!["cfn-guard".into(), "validate".into(), "-r".into(), "@/rules/r0.guard".into(), "-d".into(), format!("@/{rel}"), "-S".into(), "all".into()],
                        _ => vec!["cfn-guard".into(), "test".into(), "-r".into(), "@/rules/r0.guard".into(), "-t".into(), format!("@/{rel}"), "-o".into(), "json".into()],
                    };
                    let class = match *kind {
                        "rules" => "validate-structured-json",
                        "data" => "validate-plain-single-line-summary",
                        _ => "test-file-json",
                    };
                    steps.push(StepT { class: class.into(), mode: Mode::Exact, kind: "cli".into(), argv, stdin: None, out: None, rc: None, dir_order_defined: true });
                    if *kind == "rules" {
                        steps.push(StepT { class: "parse-tree-p".into(), mode: Mode::Exact, kind: "cli".into(), argv: vec!["cfn-guard".into(), "parse-tree".into(), "-r".into(), format!("@/{rel}"), "-p".into()], stdin: None, out: None, rc: None, dir_order_defined: true });
                    }
                }
                let bscn = Scn8 { files, steps, faults: FaultSpec::Off, rule_files: vec![], fault_kinds: String::new() };
                w.materialise(&bscn.files);
                for (si, f) in self.run(w, &bscn, rep) {
                    // keep only what this step needs
                    let one = Scn8 { files: bscn.files.clone(), steps: vec![bscn.steps[si].clone()], faults: FaultSpec::Off, rule_files: vec![], fault_kinds: String::new() };
                    out.push((one, f));
                }
            }
        }
        out
    }
}

/// After prefixing rule names, rewrite references to them.
fn rename_refs(p: &mut crate::rules::Prog, old: &[String], tag: &str) {
    use crate::rules::{Body, Clause, Line};
    fn lines(ls: &mut [Line], old: &[String], tag: &str) {
        for l in ls.iter_mut() {
            for c in l.alts.iter_mut() {
                match c {
                    Clause::Ref { name, .. } => {
                        if old.contains(name) {
                            *name = format!("{}_{}", tag, name);
                        }
                    }
                    Clause::Block { body, .. } => bodyf(body, old, tag),
                    Clause::When { cond, body } => {
                        lines(cond, old, tag);
                        bodyf(body, old, tag);
                    }
                    Clause::Type { when, body, .. } => {
                        lines(when, old, tag);
                        bodyf(body, old, tag);
                    }
                    _ => {}
                }
            }
        }
    }
    fn bodyf(b: &mut Body, old: &[String], tag: &str) {
        lines(&mut b.lines, old, tag);
    }
    for r in p.rules.iter_mut() {
        lines(&mut r.when, old, tag);
        bodyf(&mut r.body, old, tag);
    }
}

impl Check for C08 {
    fn id(&self) -> &'static str {
        "C08"
    }
    fn level(&self) -> &'static str {
        "fault_enumeration"
    }
    fn scenarios(&self, tier: Tier) -> u64 {
        match tier {
            Tier::Quick => 2000,
            Tier::Thorough => 60000,
        }
    }
    fn rule_text(&self) -> String {
        "scenario n = generated workload (half with adversarial but grammatical programs, 1/8 with cyclic rule references) + a storage-fault sequence of length 0..4 over its stored bytes (truncate, zero tail, drop/duplicate/splice block, 1-8 bit flips, random overwrite, BOM/NUL/U+FFFD/surrogate/4-byte/torn-UTF-8 insertion, CRLF) + optional read-path faults (short, EINTR, EIO, early EOF, failing open); 3-5 commands per scenario (validate plain/structured/payload/stdin/-i, test, parse-tree, rulegen, run_checks). Every 16th scenario additionally enumerates EVERY truncation point (thorough: and every single-bit flip in the first 256 bytes) of its rules, data and test file (<= 1.5 kB) through validate/parse-tree/test: that sub-space is exhaustive. Oracle: terminates within the watchdog, no signal/abort/stack overflow/panic, documented exit code or diagnostic error, and a rules file reported as unparsable names line+column and none of its rules appears in a report. distinct_nontrivial = distinct (command class, outcome, exit code) x storage-fault-kind combinations observed".into()
    }
    fn assumptions(&self) -> Vec<String> {
        vec![
            "commands run on a fresh 8 MiB-stack thread (the shipped main-thread default); nesting depth of generated text <= 8".into(),
            "the converse of clause 2 (every non-conforming text is rejected) needs an independent grammar and is not decided".into(),
            "rulegen's own process::exit(1) on an unusable template is treated as its documented error path".into(),
            "watchdog 20 s wall-clock per child is the only real-time element; it can only report a hang".into(),
        ]
    }
    fn required_reach(&self, tier: Tier) -> Vec<(&'static str, u64)> {
        let mut v = vec![("reach.rules_parse_error_reported", 1), ("gen.zero_fault", 1), ("outcome.exit", 1), ("outcome.err", 1)];
        if tier == Tier::Thorough {
            v.extend([("fault_fired.eio", 1), ("fault_fired.eof", 1), ("fault_fired.enoent", 1), ("gen.cyclic", 1)]);
        }
        v
    }

    fn run_scenario(&self, w: &mut Work, base_seed: u64, n: u64, tier: Tier) -> Report {
        let mut rep = Report::new(n);
        let seed = derive(base_seed, "C08", n);
        let scn = self.gen(seed, &mut rep);
        w.materialise(&scn.files);
        let found = self.run(w, &scn, &mut rep);
        let mut sigs_done: Vec<String> = Vec::new();
        let mut all: Vec<(Scn8, usize, Finding)> = found.into_iter().map(|(si, f)| (scn.clone(), si, f)).collect();
        if (n / 16 + n % 16) % 16 == 0 {
            for (one, f) in self.exhaustive(w, &scn, &mut rep, tier == Tier::Thorough) {
                all.push((one, 0, f));
            }
        }
        for (s, si, f) in all {
            let st = &s.steps[si];
            rep.classes.push(format!("finding|{}|{}", st.class, f.sig));
            if sigs_done.contains(&f.sig) {
                continue;
            }
            sigs_done.push(f.sig.clone());
            // every reported failure must replay: confirm by re-execution first
            let mut cexecs = 0;
            w.full_cpu_budget = true;
            let confirmed = self.has(w, &s, &f.sig, &mut cexecs);
            w.full_cpu_budget = false;
            rep.execs += cexecs;
            if !confirmed {
                rep.count("harness.unconfirmed_findings", 1);
                continue;
            }
            if !w.seen.insert(f.sig.clone()) {
                rep.violations.push(Violation { signature: f.sig.clone(), what: f.what.clone(), replay: self.to_json(&s), shrink_execs: 0, minimised: false });
                continue;
            }
            let (mut m, mut execs) = self.minimise(w, &s, si, &f.sig);
            if f.sig.starts_with("hang:") {
                // shrinking ran under the short CPU budget: the result must exhaust the full one
                w.full_cpu_budget = true;
                if !self.has(w, &m, &f.sig, &mut execs) {
                    m = s.clone();
                }
                w.full_cpu_budget = false;
            }
            rep.execs += execs;
            rep.violations.push(Violation { signature: f.sig.clone(), what: f.what.clone(), replay: self.to_json(&m), shrink_execs: execs, minimised: true });
        }
        if n < 3 {
            rep.sample = Some(json!({
                "commands": scn.steps.iter().map(|s| s.argv.join(" ")).collect::<Vec<_>>(),
                "files": scn.files.iter().map(|f| json!({"rel": f.rel, "len": f.bytes.len(), "head": String::from_utf8_lossy(&f.bytes[..f.bytes.len().min(120)])})).collect::<Vec<_>>(),
                "read_faults": serde_json::to_value(&scn.faults).unwrap(),
            }));
        }
        rep
    }

    fn replay(&self, w: &mut Work, v: &Value) -> Vec<Violation> {
        let scn = match self.from_json(v) {
            Some(s) => s,
            None => return vec![],
        };
        w.materialise(&scn.files);
        let mut rep = Report::default();
        self.run(w, &scn, &mut rep).into_iter().map(|(_, f)| Violation { signature: f.sig, what: f.what, replay: Value::Null, shrink_execs: 0, minimised: false }).collect()
    }
}
