//! Seam liveness check and determinism self-test of the simulator itself.

use crate::c05;
use crate::exec::Work;
use crate::framework::*;
use crate::prng::{derive, Fnv, Rng};
use crate::proto::*;
use crate::seams::{self, ClockMode, DirMode, FaultPlan, FaultRates, SimCfg};
use crate::workload::*;
use serde_json::Value;
use std::collections::BTreeMap;

fn hm_order(seed: u64) -> String {
    // fresh thread: RandomState caches keys per thread
    std::thread::spawn(move || {
        let _ = seed;
        let mut m = std::collections::HashMap::new();
        for c in "abcdefghijklmnop".chars() {
            m.insert(c, ());
        }
        m.keys().collect::<String>()
    })
    .join()
    .unwrap_or_default()
}

fn cfg(entropy: u64, root: &str) -> SimCfg {
    SimCfg {
        entropy_seed: entropy,
        clock_mode: ClockMode::Steady,
        clock_seed: 1,
        real_base_s: 4_102_444_800,
        mono_base_s: 777,
        dir_mode: DirMode::Desc,
        dir_seed: 1,
        faults: FaultPlan::Random { seed: 9, rates: FaultRates { read_short: 255, write_short: 255, max_short: 1, ..Default::default() } },
        root: root.as_bytes().to_vec(),
        out_dir: b"out/".to_vec(),
    }
}

/// Exit 2-worthy failures are returned as Err.
pub fn liveness() -> Result<(), String> {
    let dir = format!("/dev/shm/gsim-live-{:08x}/", std::process::id());
    let _ = std::fs::remove_dir_all(&dir);
    std::fs::create_dir_all(format!("{dir}out")).map_err(|e| format!("scratch: {e}"))?;
    for n in ["b.txt", "a.txt", "c.txt", "d.txt"] {
        std::fs::write(format!("{dir}{n}"), "0123456789").map_err(|e| format!("scratch: {e}"))?;
    }
    let result = (|| -> Result<(), String> {
        // (i) hash order is a function of the entropy seed
        seams::arm(cfg(1, &dir));
        let a1 = hm_order(1);
        let a1b = hm_order(1);
        seams::disarm();
        seams::arm(cfg(1, &dir));
        let a2 = hm_order(1);
        seams::disarm();
        seams::arm(cfg(2, &dir));
        let b1 = hm_order(2);
        seams::disarm();
        if a1 != a2 {
            return Err(format!("same entropy seed gave different HashMap orders ({a1} vs {a2})"));
        }
        if a1 == b1 && a1 == a1b {
            return Err("different entropy seeds gave the same HashMap order: getrandom seam not live".into());
        }
        // (ii) clocks
        seams::arm(cfg(1, &dir));
        let t = std::time::SystemTime::now().duration_since(std::time::UNIX_EPOCH).map(|d| d.as_secs()).unwrap_or(0);
        let i1 = std::time::Instant::now();
        let i2 = std::time::Instant::now();
        let step = i2.duration_since(i1);
        // (iii) readdir order
        let names: Vec<String> = std::fs::read_dir(&dir).map_err(|e| e.to_string())?.filter_map(|e| e.ok()).map(|e| e.file_name().to_string_lossy().into_owned()).filter(|n| n.ends_with(".txt")).collect();
        // (iv) short reads / (v) short writes
        let content = std::fs::read_to_string(format!("{dir}a.txt")).map_err(|e| e.to_string())?;
        {
            use std::io::Write;
            let mut f = std::fs::File::create(format!("{dir}out/w.txt")).map_err(|e| e.to_string())?;
            f.write_all(b"hello world").map_err(|e| e.to_string())?;
        }
        let d = seams::disarm();
        if !(4_102_444_800..4_102_444_900).contains(&t) {
            return Err(format!("SystemTime::now() not simulated (got {t})"));
        }
        if step != std::time::Duration::from_millis(1) {
            return Err(format!("Instant::now() not simulated (step {:?})", step));
        }
        if names != ["d.txt", "c.txt", "b.txt", "a.txt"] {
            return Err(format!("readdir order not controlled: {:?}", names));
        }
        if content != "0123456789" || d.stats.reads < 10 {
            return Err(format!("short reads not observed by read_to_string (reads={})", d.stats.reads));
        }
        if d.stats.writes < 11 {
            return Err(format!("short writes not observed by write_all (writes={})", d.stats.writes));
        }
        let w = std::fs::read(format!("{dir}out/w.txt")).unwrap_or_default();
        if w != b"hello world" {
            return Err("short writes corrupted the output".into());
        }
        Ok(())
    })();
    if seams::is_armed() {
        seams::disarm();
    }
    let _ = std::fs::remove_dir_all(&dir);
    result
}

pub struct SelfTest;

fn digest(o: &ExecOut, root: &str) -> u64 {
    let mut f = Fnv::new();
    let norm = |b: &[u8]| -> Vec<u8> { String::from_utf8_lossy(b).replace(root, "@ROOT@/").replace(&root[1..], "@ROOT@/").into_bytes() };
    f.bytes(o.end.as_bytes());
    if let Some(fin) = &o.fin {
        f.u64(fin.trace);
        for e in &fin.events {
            f.bytes(e.seam.as_bytes());
            f.u64(e.idx as u64);
            f.bytes(e.act.as_bytes());
            f.u64(e.arg as u64);
        }
        f.u64(fin.mono_advance_ns);
    }
    for s in &o.steps {
        f.bytes(s.res.outcome.as_bytes());
        f.u64(s.res.code as u64);
        f.bytes(s.res.panic_loc.as_bytes());
        f.bytes(&norm(&s.stdout));
        f.byte(0);
        f.bytes(&norm(&s.stderr));
        f.byte(0);
        if let Some(of) = &s.outfile {
            f.bytes(&norm(of));
        }
    }
    f.0
}

impl Check for SelfTest {
    fn id(&self) -> &'static str {
        "SELFTEST"
    }
    fn level(&self) -> &'static str {
        "other"
    }
    fn scenarios(&self, _tier: Tier) -> u64 {
        300
    }
    fn rule_text(&self) -> String {
        String::new()
    }
    fn assumptions(&self) -> Vec<String> {
        vec![]
    }
    fn run_scenario(&self, w: &mut Work, base_seed: u64, n: u64, _tier: Tier) -> Report {
        let mut rep = Report::new(n);
        let seed = derive(base_seed, "SELFTEST", n);
        let mut r = Rng::stream(seed, "workload");
        let wl = gen_workload(&mut r, &WlOpts::default());
        let nsteps = 1 + r.usize(3);
        let steps: Vec<StepT> = (0..nsteps).map(|_| gen_step(&mut r, &wl)).collect();
        let mut files = wl.files();
        files.extend(c05::noise_files());
        w.materialise(&files);
        let mut req = w.req();
        req.sim.entropy_seed = r.next();
        req.sim.clock_mode = "wild".into();
        req.sim.clock_seed = r.next();
        req.sim.dir_mode = "shuffle".into();
        req.sim.dir_seed = r.next();
        req.sim.faults = FaultSpec::Random {
            seed: r.next(),
            rates: RatesSpec { read_short: 100, read_eintr: 30, read_eio: if r.chance(1, 3) { 4 } else { 0 }, read_eof: if r.chance(1, 3) { 4 } else { 0 }, write_short: 100, write_eintr: 30, open_fail: if r.chance(1, 3) { 20 } else { 0 }, max_short: 1 + r.below(40) as u32 },
        };
        req.heap_seed = r.next() | 1;
        req.env.push(("CLICOLOR_FORCE".into(), "1".into()));
        req.steps = steps.iter().enumerate().map(|(i, s)| s.to_step_occ(&w.root, i)).collect();
        let o1 = w.run(&req);
        let d1 = digest(&o1, &w.root);
        if std::env::var_os("GSIM_ST_DUMP").is_some() {
            for s in &o1.steps {
                println!("== step {} {} code={} {}\n-- stdout\n{}\n-- stderr\n{}", s.res.idx, s.res.outcome, s.res.code, s.res.panic_loc, String::from_utf8_lossy(&s.stdout).replace(&w.root, "@ROOT@/"), String::from_utf8_lossy(&s.stderr).replace(&w.root, "@ROOT@/"));
            }
            println!("== fin {:?}", o1.fin.as_ref().map(|f| (f.trace, f.reads, f.writes, f.opens, f.getrandoms, f.clock_calls, f.events.len())));
            println!("== argv {:?}", req.steps.iter().map(|s| s.argv.join(" ").replace(&w.root, "@ROOT@/")).collect::<Vec<_>>());
        }
        let o2 = w.run(&req);
        let d2 = digest(&o2, &w.root);
        rep.execs = 2;
        rep.classes.push(format!("{n}:{d1:016x}"));
        if d1 != d2 {
            rep.harness_error = Some(format!("scenario {n}: two runs of the same request differ ({d1:016x} vs {d2:016x})"));
        }
        rep
    }
    fn replay(&self, _w: &mut Work, _scenario: &Value) -> Vec<Violation> {
        vec![]
    }
}

/// N seeds x 2 repetitions x W in {1, 4, 16}: all digests must agree.
pub fn selftest(n: u64, seed: u64) -> i32 {
    let mut maps: Vec<(usize, BTreeMap<u64, String>)> = Vec::new();
    for workers in [1usize, 4, 16] {
        let t0 = std::time::Instant::now();
        let scratch = scratch_dir();
        let _ = std::fs::remove_dir_all(&scratch);
        let _ = std::fs::create_dir_all(&scratch);
        let cfg = RunCfg { verif: "/verif".into(), tier: Tier::Quick, seed, workers, scenarios: Some(n), write_evidence: false, only: None };
        // the single-worker pass is the slowest; use a third of the seeds there
        let total = if workers == 1 { (n + 2) / 3 } else { n };
        let (reports, errs, _, _) = pool(&SelfTest, &cfg, total, &scratch);
        let _ = std::fs::remove_dir_all(&scratch);
        let mut bad = errs;
        let mut m = BTreeMap::new();
        for r in reports {
            if let Some(h) = r.harness_error {
                bad.push(h);
            }
            for c in r.classes {
                if let Some((k, v)) = c.split_once(':') {
                    m.insert(k.parse::<u64>().unwrap_or(0), v.to_string());
                }
            }
        }
        if !bad.is_empty() {
            for b in bad.iter().take(10) {
                eprintln!("guardsim selftest: NONDETERMINISM / harness error: {b}");
            }
            return 2;
        }
        println!("guardsim selftest: W={workers}: {} seeds x 2 runs identical ({:.1}s)", m.len(), t0.elapsed().as_secs_f64());
        maps.push((workers, m));
    }
    let (_, last) = maps.last().cloned().unwrap();
    for (w, m) in &maps {
        for (k, v) in m {
            if last.get(k) != Some(v) {
                eprintln!("guardsim selftest: seed index {k} gives a different execution at W={w} than at W=16");
                return 2;
            }
        }
    }
    println!("guardsim selftest: executions are independent of the worker count");
    0
}
