#!/bin/bash
# Apply each seeded change under /verif/seeded/<id>/patch.diff to /repo, run the quick checks
# (all claimed properties, or only those given in CHECKS), record which ones report a
# violation, and ALWAYS undo the change. Not a registered check.
#   usage: ./run_seeded.sh [id ...]        env: CHECKS="C05 C12"  TIER=quick|thorough
set -u
cd /verif || exit 2
CHECKS=${CHECKS:-"C04 C05 C06 C08 C12 C15 C17"}
TIER=${TIER:-quick}
ids=("$@")
if [ ${#ids[@]} -eq 0 ]; then ids=($(ls seeded)); fi
if [ -n "$(git -C /repo status --porcelain -- guard guard-lambda guard-ffi)" ]; then
    echo "run_seeded: /repo has uncommitted source changes; refusing" >&2; exit 2
fi
restore() { git -C /repo checkout -- . ; }
# on exit: undo the change AND rebuild, so that /verif/target never keeps a binary of a changed tree
finish() { restore; ./check build >/dev/null 2>&1; }
trap finish EXIT
mkdir -p /verif/seeded_results
for id in "${ids[@]}"; do
    p=/verif/seeded/$id/patch.diff
    [ -f "$p" ] || { echo "$id: no patch"; continue; }
    if ! git -C /repo apply --check "$p" 2>/dev/null; then echo "$id: patch does not apply"; continue; fi
    git -C /repo apply "$p"
    caught=""
    for c in $CHECKS; do
        out=$(./check "$c" "$TIER" 2>&1); rc=$?
        if [ $rc -eq 1 ]; then caught="$caught $c"; echo "$out" | grep -A1 "^VIOLATION" | head -6 > /verif/seeded_results/$id.$c.txt; fi
        if [ $rc -eq 2 ]; then caught="$caught $c(harness-error)"; echo "$out" | tail -5 > /verif/seeded_results/$id.$c.txt; fi
    done
    restore
    echo "$id: caught by:${caught:- NONE}"
    find /verif/replays -name '*.json' -delete 2>/dev/null
done
