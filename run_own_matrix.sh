#!/bin/bash
# Every seeded change against the quick check of ITS OWN property (the full matrix, every change
# against every check, takes ~8 h on a scratch copy; this takes ~1 h on two scratch copies).
#   usage: ./run_own_matrix.sh <scratch dir> <property> [property ...]
SCR=$1; shift
for p in "$@"; do
    SCR=$SCR WORKERS=8 CHECKS=$p /verif/run_seeded_scratch.sh $(ls /verif/seeded | grep "^$p-") 2>&1 | grep "caught by\|BUILD\|apply"
done
