#!/bin/bash
# False-alarm soak: every quick check on the UNCHANGED tree under several seeds (the registered
# commands use VERIF_SEED, default 20260926). Anything printed here is a violation to triage:
# a genuine defect or a false alarm of the machinery. Not a registered check; writes no evidence.
#   usage: ./soak_clean.sh [seed ...]     (default: 1 2 3 4 5 6 7 8)
set -u
cd /verif || exit 2
if [ -n "$(git -C /repo status --porcelain -- guard guard-lambda guard-ffi)" ]; then echo "soak: /repo has uncommitted source changes" >&2; exit 2; fi
./check build || exit 2
seeds=("$@"); if [ ${#seeds[@]} -eq 0 ]; then seeds=(1 2 3 4 5 6 7 8); fi
out=/dev/shm/soak.$$; mkdir -p $out; cp known_findings.json $out/
bad=0
for s in "${seeds[@]}"; do
    for c in C04 C05 C06 C08 C12 C15 C17; do
        r=$(./target/release/guardsim run $c --tier quick --seed $s --no-evidence --verif $out 2>&1); rc=$?
        if [ $rc -ne 0 ]; then bad=1; echo "seed $s $c: rc=$rc"; echo "$r" | grep -E "VIOLATION|what:|HARNESS|weak" | cut -c1-400; mkdir -p /verif/soak_replays; cp $out/replays/*.json /verif/soak_replays/ 2>/dev/null; fi
        rm -rf $out/replays
    done
    echo "seed $s done"
done
rm -rf $out
exit $bad
