#!/bin/bash
# like run_own_matrix.sh, for an explicit list of ids (grouped by property internally)
SCR=$1; shift
for p in C04 C05 C06 C08 C12 C15 C17; do
    ids=$(for i in "$@"; do case $i in $p-*) echo $i;; esac; done)
    [ -n "$ids" ] && SCR=$SCR WORKERS=8 CHECKS=$p /verif/run_seeded_scratch.sh $ids 2>&1 | grep "caught by\|BUILD\|apply"
done
