#!/bin/bash
# Confirm a sub-agent's change in its scratch worktree: it applies, builds, leaves the test
# suite at the baseline (639 pass / the same 15 failing), and the demonstration fails with
# the change and passes without it.   usage: confirm_seeded.sh <worktree>
set -u
wt=$1
cd "$wt" || exit 2
git diff -- guard/src > /tmp/confirm.$$.diff
if ! diff -q /tmp/confirm.$$.diff MUTANT.diff >/dev/null; then echo "NOTE: MUTANT.diff differs from the worktree diff; using the worktree diff"; cp /tmp/confirm.$$.diff MUTANT.diff; fi
echo "== build + tests with the change"
cargo test --workspace --no-fail-fast --offline 2>&1 | grep -E "^test result" | awk '{p+=$4; f+=$6} END {print "passed",p,"failed",f}'
RUST_TEST_THREADS=1 cargo test --workspace --no-fail-fast --offline 2>&1 | grep -E "^test .* FAILED$" | sort > /tmp/confirm.$$.failed
echo "failing tests: $(wc -l < /tmp/confirm.$$.failed) (baseline 15)"; grep -v "validate_tests::" /tmp/confirm.$$.failed
echo "== demo with the change"; bash DEMO.sh >/tmp/confirm.$$.demo1 2>&1; echo "exit $?"
git apply -R MUTANT.diff || { echo "cannot revert"; exit 2; }
echo "== demo without the change"; bash DEMO.sh >/tmp/confirm.$$.demo0 2>&1; echo "exit $?"
git apply MUTANT.diff
rm -f /tmp/confirm.$$.*
