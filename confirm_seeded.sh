#!/bin/bash
# Confirm a sub-agent's change in its scratch worktree: it applies, builds, leaves the test
# suite at the baseline (639 pass / the same 15 failing), and the demonstration fails with
# the change and passes without it.   usage: confirm_seeded.sh <worktree>
set -u
wt=$1
cd "$wt" || exit 2
git diff -- guard/src > /tmp/confirm.$$.diff
if ! diff -q /tmp/confirm.$$.diff MUTANT.diff >/dev/null; then echo "NOTE: MUTANT.diff differs from the worktree diff; using the worktree diff"; cp /tmp/confirm.$$.diff MUTANT.diff; fi
echo "== build + tests with the change"
cargo test --workspace --no-fail-fast --offline 2>&1 | grep -E "^test result" | awk '{p+=$4; f+=$6} END {print "passed",p,"failed",f}'
# names from the "failures:" summary blocks (robust against interleaved test output)
cargo test --workspace --no-fail-fast --offline 2>&1 | grep -E "^    [A-Za-z_0-9]+::[A-Za-z_0-9:]+$" | sed 's/^ *//' | sort -u > /tmp/confirm.$$.failed
if diff -q /tmp/confirm.$$.failed /verif/baseline_always_fail.txt >/dev/null; then echo "failing tests: exactly the baseline's 15"; else echo "FAILING TEST SET DIFFERS FROM BASELINE:"; diff /tmp/confirm.$$.failed /verif/baseline_always_fail.txt; fi
echo "== demo with the change"; bash DEMO.sh >/tmp/confirm.$$.demo1 2>&1; echo "exit $?"
git apply -R MUTANT.diff || { echo "cannot revert"; exit 2; }
echo "== demo without the change"; bash DEMO.sh >/tmp/confirm.$$.demo0 2>&1; echo "exit $?"
git apply MUTANT.diff
rm -f /tmp/confirm.$$.*
