#!/bin/bash
# The seeded-change matrix on a SCRATCH copy, so that /repo stays free while it runs (about
# two hours for all changes x all checks). Same steps as run_seeded.sh — apply the change,
# build the simulator against the changed tree, run every quick check, undo — but on a git
# worktree of /repo and a copy of /verif/sim under $SCR (default /dev/shm/mx). Not a
# registered check; nothing registered in MANIFEST.json needs $SCR. The scratch copy and its
# build output are removed at the end.
#   usage: ./run_seeded_scratch.sh [id ...]     env: CHECKS="C05 C12" TIER=quick SCR=/dev/shm/mx WORKERS=8
set -u
SCR=${SCR:-/dev/shm/mx}
CHECKS=${CHECKS:-"C04 C05 C06 C08 C12 C15 C17"}
TIER=${TIER:-quick}
WORKERS=${WORKERS:-8}
ids=("$@")
if [ ${#ids[@]} -eq 0 ]; then ids=($(ls /verif/seeded)); fi
cleanup() {
    git -C /repo worktree remove --force "$SCR/repo" 2>/dev/null
    git -C /repo worktree prune
    rm -rf "$SCR"
}
trap cleanup EXIT
rm -rf "$SCR"; mkdir -p "$SCR/verif/evidence" || exit 2
git -C /repo worktree add -q --detach "$SCR/repo" HEAD || exit 2
cp -r /verif/sim "$SCR/sim"
sed -i "s#path = \"/repo/guard\"#path = \"$SCR/repo/guard\"#" "$SCR/sim/Cargo.toml"
printf '[net]\noffline = true\n[build]\ntarget-dir = "%s/target"\n' "$SCR" > "$SCR/sim/.cargo/config.toml"
cp /repo/Cargo.lock "$SCR/sim/Cargo.lock"
cp /verif/known_findings.json "$SCR/verif/"
export CARGO_NET_OFFLINE=true
mkdir -p /verif/seeded_results
for id in "${ids[@]}"; do
    p=/verif/seeded/$id/patch.diff
    [ -f "$p" ] || { echo "$id: no patch"; continue; }
    if ! git -C "$SCR/repo" apply --check "$p" 2>/dev/null; then echo "$id: patch does not apply"; continue; fi
    git -C "$SCR/repo" apply "$p"
    if ! (cd "$SCR/sim" && RUSTFLAGS="--cfg guard_verif" cargo +1.77.2 build --release --offline > "$SCR/build.log" 2>&1); then
        echo "$id: BUILD FAILED"; tail -5 "$SCR/build.log"; git -C "$SCR/repo" checkout -- .; continue
    fi
    caught=""
    for c in $CHECKS; do
        out=$("$SCR/target/release/guardsim" run "$c" --tier "$TIER" --workers "$WORKERS" --verif "$SCR/verif" 2>&1); rc=$?
        if [ $rc -eq 1 ]; then caught="$caught $c"; echo "$out" | grep -A1 "^VIOLATION" | head -6 > /verif/seeded_results/$id.$c.txt; fi
        if [ $rc -eq 2 ]; then caught="$caught $c(harness-error)"; echo "$out" | tail -5 > /verif/seeded_results/$id.$c.txt; fi
    done
    git -C "$SCR/repo" checkout -- .
    echo "$id: caught by:${caught:- NONE}"
    rm -rf "$SCR/verif/replays"
done
