#!/bin/bash
# Confirm a sub-agent's BULK delivery (MUTANT-k.diff / DEMO-k.sh, k = 1..) in its scratch
# worktree: every change applies to the unmodified tree on its own, builds, leaves the test
# suite at the baseline (639 pass / the same 15 failing), and its demonstration exits 1 with
# the change and 0 without it.   usage: confirm_bulk.sh <worktree>
set -u
wt=$1
cd "$wt" || exit 2
if ! git diff --quiet -- guard/src; then echo "worktree is not clean; reverting"; git checkout -- guard/src; fi
for d in MUTANT-*.diff; do
    k=${d#MUTANT-}; k=${k%.diff}
    [ -f "DEMO-$k.sh" ] || { echo "k=$k: no demo"; continue; }
    if ! git apply --check "$d" 2>/dev/null; then echo "k=$k: DOES NOT APPLY"; continue; fi
    git apply "$d"
    out=$(cargo test --workspace --no-fail-fast --offline 2>&1)
    pf=$(echo "$out" | grep -E "^test result" | awk '{p+=$4; f+=$6} END {print p"/"f}')
    echo "$out" | grep -E "^    [A-Za-z_0-9]+::[A-Za-z_0-9:]+$" | sed 's/^ *//' | sort -u > /tmp/cb.$$.failed
    if diff -q /tmp/cb.$$.failed /verif/baseline_always_fail.txt >/dev/null; then base=same15; else base=DIFFERENT; fi
    bash "DEMO-$k.sh" >/tmp/cb.$$.demo1 2>&1; e1=$?
    git apply -R "$d"
    bash "DEMO-$k.sh" >/tmp/cb.$$.demo0 2>&1; e0=$?
    verdict=REJECT
    if [ "$pf" = "639/15" ] && [ $base = same15 ] && [ $e1 -eq 1 ] && [ $e0 -eq 0 ]; then verdict=OK; fi
    echo "k=$k: tests $pf failing-set $base demo-with $e1 demo-without $e0 => $verdict"
done
rm -f /tmp/cb.$$.*
